package main

// C16 — guard shapes of the privileged handlers.
//
// For each privileged handler the emitter records, purely syntactically:
//   * guards: the statement that gates the handler on the signer-derived variable — either the first
//     `if` (pre-order, source order) whose condition mentions the variable ("if" scheme) or the first
//     `x, flag := call(… var …)` (flag ∈ found/err/ok) together with the `if` on that flag that follows
//     it ("lookup" scheme).  Recorded: operator, operands by role, a summary of the true/else branches
//     (return statements reduced to their Err… identifier), the enclosing for/if headers and the
//     function's final return.
//   * wiring: for each msg-server method, which message field `GetSigners` returns, which local
//     variable that field is parsed into, and the keeper call that receives it.
// Tables only — no control flow is translated.  An inverted, dropped or re-targeted comparison changes
// the generated table, hence the Lean model guard (which interprets `op`) and the pinned-table theorem.

import (
	"fmt"
	"go/ast"
	"go/token"
	"regexp"
	"strings"
)

func init() { Register("C16Guards", emitC16Guards) }

type c16GuardSpec struct {
	handler string
	file    string
	fn      string
	v       string // the signer-derived variable (identifier, or selector text such as msg.Authority)
	scheme  string // "if" | "lookup"
	nth     int    // skip this many earlier matches (0 = first)
	callee  string // lookup scheme: the called function's name must contain this ("" = any)
}

type c16Guard struct {
	Handler, File, Fn, Signer, Kind, Lhs, Op, Rhs, OnTrue, OnFalse, Context, Fallthrough string
	Exits bool // the guard's true branch ends in a return/panic (i.e. the guard rejects or answers)
	RejectCode string // "codespace/code" of the registered error the guard rejects with ("" if not a module error)
}

type c16WireSpec struct {
	handler   string
	msgType   string
	typesFile string
	srvFile   string
	srvFn     string
}

type c16Wire struct {
	Handler, MsgType, SignerField, SrvFile, SrvFn, SignerVar, KeeperCall string
}

var c16ErrIdent = regexp.MustCompile(`\bErr[A-Z]\w*`)

func c16Mentions(n ast.Node, v string) bool {
	if n == nil {
		return false
	}
	hit := false
	ast.Inspect(n, func(x ast.Node) bool {
		if hit || x == nil {
			return false
		}
		switch e := x.(type) {
		case *ast.Ident:
			if e.Name == v {
				hit = true
			}
		case *ast.SelectorExpr:
			if strings.Contains(v, ".") && exprString(e) == v {
				hit = true
				return false
			}
		}
		return true
	})
	return hit
}

func c16Squash(s string) string { return strings.Join(strings.Fields(s), " ") }

// summary of one result expression of a return statement
func c16Result(f *File, e ast.Expr) string {
	txt := f.text(e)
	if m := c16ErrIdent.FindString(txt); m != "" {
		return m
	}
	return c16Squash(txt)
}

func c16Stmt(f *File, s ast.Stmt) string {
	switch v := s.(type) {
	case *ast.ReturnStmt:
		rs := make([]string, len(v.Results))
		for i, r := range v.Results {
			rs[i] = c16Result(f, r)
		}
		if len(rs) == 0 {
			return "return"
		}
		return "return " + strings.Join(rs, ", ")
	case *ast.IfStmt:
		out := "if " + c16IfHeader(f, v) + " { " + c16Block(f, v.Body) + " }"
		if v.Else != nil {
			switch e := v.Else.(type) {
			case *ast.BlockStmt:
				out += " else { " + c16Block(f, e) + " }"
			default:
				out += " else " + c16Stmt(f, e)
			}
		}
		return out
	case *ast.ExprStmt:
		if c, ok := v.X.(*ast.CallExpr); ok {
			fn := exprString(c.Fun)
			if fn == "panic" {
				return "panic"
			}
			return fn + "(…)"
		}
	}
	return c16Squash(f.text(s))
}

func c16Block(f *File, b *ast.BlockStmt) string {
	if b == nil {
		return ""
	}
	parts := make([]string, len(b.List))
	for i, s := range b.List {
		parts[i] = c16Stmt(f, s)
	}
	return strings.Join(parts, "; ")
}

func c16IfHeader(f *File, s *ast.IfStmt) string {
	h := ""
	if s.Init != nil {
		h = c16Squash(f.text(s.Init)) + "; "
	}
	return h + c16Squash(f.text(s.Cond))
}

// c16Split decomposes a condition into (lhs, op, rhs).
//   strings.Compare(a, b) != 0   →  (a, "!=", b)        strings.Compare(a, b) == 0 → (a, "==", b)
//   a OP b                        →  (a, OP, b)
//   !x.M(args)                    →  (x.M(args), "!", "")
//   x.M(args) / ident             →  (text, "", "")
func c16Split(f *File, cond ast.Expr) (string, string, string) {
	switch c := cond.(type) {
	case *ast.ParenExpr:
		return c16Split(f, c.X)
	case *ast.BinaryExpr:
		if call, ok := c.X.(*ast.CallExpr); ok && exprString(call.Fun) == "strings.Compare" && len(call.Args) == 2 {
			if lit, ok := c.Y.(*ast.BasicLit); ok && lit.Value == "0" && (c.Op == token.NEQ || c.Op == token.EQL) {
				return c16Squash(f.text(call.Args[0])), c.Op.String(), c16Squash(f.text(call.Args[1]))
			}
		}
		return c16Squash(f.text(c.X)), c.Op.String(), c16Squash(f.text(c.Y))
	case *ast.UnaryExpr:
		if c.Op == token.NOT {
			return c16Squash(f.text(c.X)), "!", ""
		}
	}
	return c16Squash(f.text(cond)), "", ""
}

type c16Found struct {
	ifs    *ast.IfStmt
	assign *ast.AssignStmt
	ctx    []string
}

// pre-order walk over every statement of a block, carrying the enclosing for/if headers
func c16Walk(f *File, b *ast.BlockStmt, ctx []string, visit func(list []ast.Stmt, i int, ctx []string) bool) bool {
	if b == nil {
		return false
	}
	for i, s := range b.List {
		if visit(b.List, i, ctx) {
			return true
		}
		switch v := s.(type) {
		case *ast.IfStmt:
			in := append(append([]string{}, ctx...), "if "+c16IfHeader(f, v))
			if c16Walk(f, v.Body, in, visit) {
				return true
			}
			if eb, ok := v.Else.(*ast.BlockStmt); ok {
				el := append(append([]string{}, ctx...), "else of if "+c16IfHeader(f, v))
				if c16Walk(f, eb, el, visit) {
					return true
				}
			}
		case *ast.RangeStmt:
			h := "for " + exprString(v.Key)
			if v.Value != nil {
				h += ", " + exprString(v.Value)
			}
			h += " := range " + c16Squash(f.text(v.X))
			if c16Walk(f, v.Body, append(append([]string{}, ctx...), h), visit) {
				return true
			}
		case *ast.ForStmt:
			if c16Walk(f, v.Body, append(append([]string{}, ctx...), "for"), visit) {
				return true
			}
		case *ast.BlockStmt:
			if c16Walk(f, v, ctx, visit) {
				return true
			}
		case *ast.SwitchStmt:
			for _, cc := range v.Body.List {
				if c, ok := cc.(*ast.CaseClause); ok {
					if c16Walk(f, &ast.BlockStmt{List: c.Body}, append(append([]string{}, ctx...), "switch "+c16Squash(f.text(v.Tag))), visit) {
						return true
					}
				}
			}
		}
	}
	return false
}

func c16FlagOf(a *ast.AssignStmt) string {
	if len(a.Lhs) == 0 {
		return ""
	}
	if id, ok := a.Lhs[len(a.Lhs)-1].(*ast.Ident); ok {
		switch id.Name {
		case "found", "err", "ok":
			return id.Name
		}
	}
	return ""
}

func c16ExtractGuard(repo string, sp c16GuardSpec) (c16Guard, error) {
	g := c16Guard{Handler: sp.handler, File: sp.file, Fn: sp.fn, Signer: sp.v, Kind: sp.scheme}
	f, err := parseFile(repo, sp.file)
	if err != nil {
		return g, err
	}
	fd, err := f.funcDecl(sp.fn)
	if err != nil {
		return g, err
	}
	if fd.Body == nil {
		return g, fmt.Errorf("%s: %s has no body", sp.file, sp.fn)
	}
	skip := sp.nth
	var hit *c16Found
	c16Walk(f, fd.Body, nil, func(list []ast.Stmt, i int, ctx []string) bool {
		switch sp.scheme {
		case "if":
			if s, ok := list[i].(*ast.IfStmt); ok && c16Mentions(s.Cond, sp.v) {
				if skip > 0 {
					skip--
					return false
				}
				hit = &c16Found{ifs: s, ctx: ctx}
				return true
			}
		case "lookup":
			a, ok := list[i].(*ast.AssignStmt)
			if !ok || len(a.Rhs) != 1 {
				return false
			}
			call, ok := a.Rhs[0].(*ast.CallExpr)
			if !ok {
				return false
			}
			flag := c16FlagOf(a)
			if flag == "" {
				return false
			}
			if sp.callee != "" && !strings.Contains(exprString(call.Fun), sp.callee) {
				return false
			}
			used := false
			for _, arg := range call.Args {
				if c16Mentions(arg, sp.v) {
					used = true
				}
			}
			if !used {
				return false
			}
			// the variable's own definition (`from, err := AccAddressFromBech32(msg.From)`) is not a lookup
			for _, l := range a.Lhs {
				if id, ok := l.(*ast.Ident); ok && id.Name == sp.v {
					return false
				}
			}
			if skip > 0 {
				skip--
				return false
			}
			if i+1 < len(list) {
				if s, ok := list[i+1].(*ast.IfStmt); ok && c16Mentions(s.Cond, flag) {
					hit = &c16Found{ifs: s, assign: a, ctx: ctx}
					return true
				}
			}
			// a lookup whose result flag is not checked by the next statement: the guard is gone
			hit = &c16Found{assign: a, ctx: ctx}
			return true
		}
		return false
	})
	if hit == nil {
		// the comparison was dropped: keep the table well-formed so that the model (which then lets
		// every signer through) still builds and the failing input can be exhibited
		g.Op = "missing"
		return g, nil
	}
	g.Context = strings.Join(hit.ctx, " > ")
	if hit.assign != nil {
		g.Lhs = c16Squash(f.text(hit.assign.Rhs[0]))
		if hit.ifs == nil {
			g.Op, g.OnTrue = "unchecked", ""
		} else {
			g.Op = c16IfHeader(f, hit.ifs)
			g.OnTrue = c16Block(f, hit.ifs.Body)
		}
	} else {
		g.Lhs, g.Op, g.Rhs = c16Split(f, hit.ifs.Cond)
		if hit.ifs.Init != nil {
			g.Context = strings.TrimPrefix(g.Context+" > init "+c16Squash(f.text(hit.ifs.Init)), " > ")
		}
		g.OnTrue = c16Block(f, hit.ifs.Body)
	}
	if hit.ifs != nil && hit.ifs.Body != nil && len(hit.ifs.Body.List) > 0 {
		switch last := hit.ifs.Body.List[len(hit.ifs.Body.List)-1].(type) {
		case *ast.ReturnStmt:
			g.Exits = true
		case *ast.ExprStmt:
			if c, ok := last.X.(*ast.CallExpr); ok && exprString(c.Fun) == "panic" {
				g.Exits = true
			}
		}
	}
	if hit.ifs != nil && hit.ifs.Else != nil {
		switch e := hit.ifs.Else.(type) {
		case *ast.BlockStmt:
			g.OnFalse = c16Block(f, e)
		default:
			g.OnFalse = c16Stmt(f, e)
		}
	}
	if n := len(fd.Body.List); n > 0 {
		if r, ok := fd.Body.List[n-1].(*ast.ReturnStmt); ok {
			g.Fallthrough = c16Stmt(f, r)
		}
	}
	ident := c16ErrIdent.FindString(g.OnTrue)
	if ident == "" && g.Exits {
		ident = c16ErrIdent.FindString(g.Fallthrough) // search loops: the miss is the function's final return
	}
	if ident != "" {
		g.RejectCode = c16ErrorCode(repo, sp.file, ident)
	}
	return g, nil
}

// c16ErrorCode looks `ident = errorsmod.Register(ModuleName, N, …)` up in x/<module>/types and renders
// "codespace/N"; "" when the identifier is not registered by that module (e.g. an SDK error).
func c16ErrorCode(repo, file, ident string) string {
	parts := strings.Split(file, "/")
	if len(parts) < 2 || parts[0] != "x" {
		return ""
	}
	files, err := parseDir(repo, "x/"+parts[1]+"/types")
	if err != nil {
		return ""
	}
	space := ""
	for _, tf := range files {
		if e, err := tf.topValue("ModuleName"); err == nil {
			if v, err := strLit(e); err == nil {
				space = v
			}
		}
	}
	for _, tf := range files {
		e, err := tf.topValue(ident)
		if err != nil {
			continue
		}
		call, ok := e.(*ast.CallExpr)
		if !ok || !strings.HasSuffix(exprString(call.Fun), "Register") || len(call.Args) < 2 {
			continue
		}
		lit, ok := call.Args[1].(*ast.BasicLit)
		if !ok || space == "" {
			continue
		}
		return space + "/" + lit.Value
	}
	return ""
}

func c16MethodOf(f *File, recvType, name string) *ast.FuncDecl {
	for _, d := range f.F.Decls {
		fd, ok := d.(*ast.FuncDecl)
		if !ok || fd.Name.Name != name || fd.Recv == nil || len(fd.Recv.List) == 0 {
			continue
		}
		t := exprString(fd.Recv.List[0].Type)
		if strings.TrimPrefix(t, "*") == recvType {
			return fd
		}
	}
	return nil
}

// the `msg.X` handed to AccAddressFromBech32 inside a function body (first one)
func c16Bech32Field(fd *ast.FuncDecl) string {
	field := ""
	ast.Inspect(fd.Body, func(n ast.Node) bool {
		if field != "" {
			return false
		}
		if c, ok := n.(*ast.CallExpr); ok && strings.HasSuffix(exprString(c.Fun), "AccAddressFromBech32") && len(c.Args) == 1 {
			field = exprString(c.Args[0])
		}
		return true
	})
	return field
}

func c16ExtractWire(repo string, sp c16WireSpec) (c16Wire, error) {
	w := c16Wire{Handler: sp.handler, MsgType: sp.msgType, SrvFile: sp.srvFile, SrvFn: sp.srvFn}
	tf, err := parseFile(repo, sp.typesFile)
	if err != nil {
		return w, err
	}
	gs := c16MethodOf(tf, sp.msgType, "GetSigners")
	if gs == nil {
		return w, fmt.Errorf("%s: no %s.GetSigners", sp.typesFile, sp.msgType)
	}
	w.SignerField = c16Bech32Field(gs)
	if w.SignerField == "" {
		// one level of indirection: `return []sdk.AccAddress{msg.GetProposer()}`
		ast.Inspect(gs.Body, func(n ast.Node) bool {
			if c, ok := n.(*ast.CallExpr); ok && w.SignerField == "" {
				if sel, ok := c.Fun.(*ast.SelectorExpr); ok && exprString(sel.X) == "msg" {
					if m := c16MethodOf(tf, sp.msgType, sel.Sel.Name); m != nil && m.Body != nil {
						w.SignerField = c16Bech32Field(m)
					}
				}
			}
			return true
		})
	}
	if w.SignerField == "" {
		return w, fmt.Errorf("%s: %s.GetSigners does not parse a message field", sp.typesFile, sp.msgType)
	}
	sf, err := parseFile(repo, sp.srvFile)
	if err != nil {
		return w, err
	}
	fd := c16MethodOf(sf, "msgServer", sp.srvFn)
	if fd == nil {
		return w, fmt.Errorf("%s: no msgServer.%s", sp.srvFile, sp.srvFn)
	}
	// the local variable the signer field is parsed into
	ast.Inspect(fd.Body, func(n ast.Node) bool {
		a, ok := n.(*ast.AssignStmt)
		if !ok || len(a.Rhs) != 1 || w.SignerVar != "" {
			return true
		}
		if c, ok := a.Rhs[0].(*ast.CallExpr); ok && strings.HasSuffix(exprString(c.Fun), "AccAddressFromBech32") &&
			len(c.Args) == 1 && exprString(c.Args[0]) == w.SignerField {
			w.SignerVar = exprString(a.Lhs[0])
		}
		return true
	})
	if w.SignerVar == "" {
		w.SignerVar = w.SignerField // used directly (community UpdateParams compares msg.Authority)
	}
	// first keeper call that receives it
	ast.Inspect(fd.Body, func(n ast.Node) bool {
		c, ok := n.(*ast.CallExpr)
		if !ok || w.KeeperCall != "" {
			return true
		}
		if !strings.Contains(exprString(c.Fun), "keeper.") {
			return true
		}
		for _, a := range c.Args {
			if c16Mentions(a, w.SignerVar) {
				w.KeeperCall = c16Squash(sf.text(c))
				return false
			}
		}
		return true
	})
	return w, nil
}

func emitC16Guards(repo string) (string, any, error) {
	iss := "x/issuance/keeper/issuance.go"
	guards := []c16GuardSpec{
		{"pricefeed.PostPrice", "x/pricefeed/keeper/msg_server.go", "PostPrice", "from", "lookup", 0, "GetOracle"},
		{"pricefeed.GetOracle", "x/pricefeed/keeper/params.go", "GetOracle", "address", "if", 0, ""},
		{"issuance.IssueTokens", iss, "IssueTokens", "owner", "if", 0, ""},
		{"issuance.RedeemTokens", iss, "RedeemTokens", "owner", "if", 0, ""},
		{"issuance.BlockAddress", iss, "BlockAddress", "owner", "if", 0, ""},
		{"issuance.UnblockAddress", iss, "UnblockAddress", "owner", "if", 0, ""},
		{"issuance.SetPauseStatus", iss, "SetPauseStatus", "owner", "if", 0, ""},
		{"bep3.CreateAtomicSwap", "x/bep3/keeper/swap.go", "CreateAtomicSwap", "sender", "if", 0, ""},
		{"committee.SubmitProposal", "x/committee/keeper/proposal.go", "SubmitProposal", "proposer", "if", 0, ""},
		{"committee.AddVote", "x/committee/keeper/proposal.go", "AddVote", "voter", "if", 0, ""},
		{"committee.HasMember", "x/committee/types/committee.go", "HasMember", "addr", "if", 0, ""},
		{"community.UpdateParams", "x/community/keeper/msg_server.go", "UpdateParams", "msg.Authority", "if", 0, ""},
		{"cdp.AddPrincipal", "x/cdp/keeper/draw.go", "AddPrincipal", "owner", "lookup", 0, "GetCdpByOwnerAndCollateralType"},
		{"cdp.RepayPrincipal", "x/cdp/keeper/draw.go", "RepayPrincipal", "owner", "lookup", 0, "GetCdpByOwnerAndCollateralType"},
		{"cdp.WithdrawCollateral", "x/cdp/keeper/deposit.go", "WithdrawCollateral", "depositor", "lookup", 0, "GetDeposit"},
		{"cdp.WithdrawCollateral.cdp", "x/cdp/keeper/deposit.go", "WithdrawCollateral", "owner", "lookup", 0, "GetCdpByOwnerAndCollateralType"},
		{"cdp.WithdrawCollateral.cap", "x/cdp/keeper/deposit.go", "WithdrawCollateral", "deposit", "if", 0, ""},
		{"hard.Withdraw", "x/hard/keeper/withdraw.go", "Withdraw", "depositor", "lookup", 0, "GetDeposit"},
		{"hard.Withdraw.cap", "x/hard/keeper/withdraw.go", "CalculateWithdrawAmount", "available", "if", 1, ""},
		{"swap.Withdraw", "x/swap/keeper/withdraw.go", "Withdraw", "owner", "lookup", 0, "GetDepositorShares"},
		{"swap.Withdraw.cap", "x/swap/keeper/withdraw.go", "Withdraw", "shareRecord", "if", 0, ""},
		{"earn.Withdraw", "x/earn/keeper/withdraw.go", "Withdraw", "from", "lookup", 0, "GetVaultShareRecord"},
		{"earn.Withdraw.cap", "x/earn/keeper/withdraw.go", "Withdraw", "accCurrentShares", "if", 0, ""},
		{"savings.Withdraw", "x/savings/keeper/withdraw.go", "Withdraw", "depositor", "lookup", 0, "GetDeposit"},
		{"savings.Withdraw.cap", "x/savings/keeper/withdraw.go", "CalculateWithdrawAmount", "available", "if", 1, ""},
	}
	wires := []c16WireSpec{
		{"pricefeed.PostPrice", "MsgPostPrice", "x/pricefeed/types/msgs.go", "x/pricefeed/keeper/msg_server.go", "PostPrice"},
		{"issuance.IssueTokens", "MsgIssueTokens", "x/issuance/types/msg.go", "x/issuance/keeper/msg_server.go", "IssueTokens"},
		{"issuance.RedeemTokens", "MsgRedeemTokens", "x/issuance/types/msg.go", "x/issuance/keeper/msg_server.go", "RedeemTokens"},
		{"issuance.BlockAddress", "MsgBlockAddress", "x/issuance/types/msg.go", "x/issuance/keeper/msg_server.go", "BlockAddress"},
		{"issuance.UnblockAddress", "MsgUnblockAddress", "x/issuance/types/msg.go", "x/issuance/keeper/msg_server.go", "UnblockAddress"},
		{"issuance.SetPauseStatus", "MsgSetPauseStatus", "x/issuance/types/msg.go", "x/issuance/keeper/msg_server.go", "SetPauseStatus"},
		{"bep3.CreateAtomicSwap", "MsgCreateAtomicSwap", "x/bep3/types/msg.go", "x/bep3/keeper/msg_server.go", "CreateAtomicSwap"},
		{"committee.SubmitProposal", "MsgSubmitProposal", "x/committee/types/msg.go", "x/committee/keeper/msg_server.go", "SubmitProposal"},
		{"committee.AddVote", "MsgVote", "x/committee/types/msg.go", "x/committee/keeper/msg_server.go", "Vote"},
		{"community.UpdateParams", "MsgUpdateParams", "x/community/types/msg.go", "x/community/keeper/msg_server.go", "UpdateParams"},
		{"cdp.AddPrincipal", "MsgDrawDebt", "x/cdp/types/msg.go", "x/cdp/keeper/msg_server.go", "DrawDebt"},
		{"cdp.RepayPrincipal", "MsgRepayDebt", "x/cdp/types/msg.go", "x/cdp/keeper/msg_server.go", "RepayDebt"},
		{"cdp.WithdrawCollateral", "MsgWithdraw", "x/cdp/types/msg.go", "x/cdp/keeper/msg_server.go", "Withdraw"},
		{"hard.Withdraw", "MsgWithdraw", "x/hard/types/msg.go", "x/hard/keeper/msg_server.go", "Withdraw"},
		{"swap.Withdraw", "MsgWithdraw", "x/swap/types/msg.go", "x/swap/keeper/msg_server.go", "Withdraw"},
		{"earn.Withdraw", "MsgWithdraw", "x/earn/types/msg.go", "x/earn/keeper/msg_server.go", "Withdraw"},
		{"savings.Withdraw", "MsgWithdraw", "x/savings/types/msg.go", "x/savings/keeper/msg_server.go", "Withdraw"},
	}
	var sb strings.Builder
	sb.WriteString("namespace KV.Gen.C16\n\n")
	sb.WriteString("/-- shape of the statement that gates a privileged handler on its signer-derived variable -/\n")
	sb.WriteString("structure Guard where\n  handler : String\n  file : String\n  fn : String\n  signer : String\n  kind : String\n" +
		"  lhs : String\n  op : String\n  rhs : String\n  exits : Bool\n  rejectCode : String\n  onTrue : String\n  onFalse : String\n  context : String\n  fallthru : String\nderiving DecidableEq, Repr, Inhabited\n\n")
	sb.WriteString("/-- how the signer of a message reaches the keeper: GetSigners field, local variable, keeper call -/\n")
	sb.WriteString("structure Wire where\n  handler : String\n  msgType : String\n  signerField : String\n  srvFile : String\n  srvFn : String\n" +
		"  signerVar : String\n  keeperCall : String\nderiving DecidableEq, Repr, Inhabited\n\n")
	var gs []c16Guard
	sb.WriteString("def guards : List Guard := [\n")
	for i, sp := range guards {
		g, err := c16ExtractGuard(repo, sp)
		if err != nil {
			return "", nil, err
		}
		gs = append(gs, g)
		sep := ","
		if i == len(guards)-1 {
			sep = ""
		}
		fmt.Fprintf(&sb, "  { handler := %s, file := %s, fn := %s, signer := %s, kind := %s,\n    lhs := %s, op := %s, rhs := %s, exits := %s, rejectCode := %s,\n    onTrue := %s,\n    onFalse := %s,\n    context := %s,\n    fallthru := %s }%s\n",
			leanStr(g.Handler), leanStr(g.File), leanStr(g.Fn), leanStr(g.Signer), leanStr(g.Kind),
			leanStr(g.Lhs), leanStr(g.Op), leanStr(g.Rhs), leanBool(g.Exits), leanStr(g.RejectCode), leanStr(g.OnTrue), leanStr(g.OnFalse), leanStr(g.Context), leanStr(g.Fallthrough), sep)
	}
	sb.WriteString("]\n\n")
	var ws []c16Wire
	sb.WriteString("def wiring : List Wire := [\n")
	for i, sp := range wires {
		w, err := c16ExtractWire(repo, sp)
		if err != nil {
			return "", nil, err
		}
		ws = append(ws, w)
		sep := ","
		if i == len(wires)-1 {
			sep = ""
		}
		fmt.Fprintf(&sb, "  { handler := %s, msgType := %s, signerField := %s, srvFile := %s, srvFn := %s,\n    signerVar := %s, keeperCall := %s }%s\n",
			leanStr(w.Handler), leanStr(w.MsgType), leanStr(w.SignerField), leanStr(w.SrvFile), leanStr(w.SrvFn),
			leanStr(w.SignerVar), leanStr(w.KeeperCall), sep)
	}
	sb.WriteString("]\n\n")
	sb.WriteString("/-- the guard entry of a handler (default = empty record when absent) -/\n")
	sb.WriteString("def guardOf (h : String) : Guard := (guards.find? (fun g => g.handler == h)).getD default\n\n")
	sb.WriteString("end KV.Gen.C16\n")
	return sb.String(), map[string]any{"guards": gs, "wiring": ws}, nil
}
