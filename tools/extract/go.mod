module kavaverif/extract

go 1.21
