package main

import (
	"fmt"
	"go/ast"
	"go/parser"
	"go/token"
	"math/big"
	"os"
	"path/filepath"
	"sort"
	"strconv"
	"strings"
)

type File struct {
	Fset *token.FileSet
	F    *ast.File
	Path string
	Src  []byte
}

func parseFile(repo, rel string) (*File, error) {
	p := filepath.Join(repo, rel)
	src, err := os.ReadFile(p)
	if err != nil {
		return nil, err
	}
	fset := token.NewFileSet()
	f, err := parser.ParseFile(fset, p, src, parser.ParseComments)
	if err != nil {
		return nil, err
	}
	return &File{fset, f, rel, src}, nil
}

// parseDir parses all non-test .go files of a directory (build-tagged verif files excluded).
func parseDir(repo, rel string) ([]*File, error) {
	ents, err := os.ReadDir(filepath.Join(repo, rel))
	if err != nil {
		return nil, err
	}
	var out []*File
	for _, e := range ents {
		n := e.Name()
		if e.IsDir() || !strings.HasSuffix(n, ".go") || strings.HasSuffix(n, "_test.go") ||
			strings.HasSuffix(n, "_verif.go") || strings.HasSuffix(n, ".pb.go") || strings.HasSuffix(n, ".pb.gw.go") {
			continue
		}
		f, err := parseFile(repo, filepath.Join(rel, n))
		if err != nil {
			return nil, err
		}
		out = append(out, f)
	}
	sort.Slice(out, func(i, j int) bool { return out[i].Path < out[j].Path })
	return out, nil
}

// topValue finds the initialiser expression of a package-level var/const.
func (f *File) topValue(name string) (ast.Expr, error) {
	for _, d := range f.F.Decls {
		g, ok := d.(*ast.GenDecl)
		if !ok || (g.Tok != token.VAR && g.Tok != token.CONST) {
			continue
		}
		for _, s := range g.Specs {
			vs := s.(*ast.ValueSpec)
			for i, n := range vs.Names {
				if n.Name == name && i < len(vs.Values) {
					return vs.Values[i], nil
				}
			}
		}
	}
	return nil, fmt.Errorf("%s: no top-level %s", f.Path, name)
}

func (f *File) funcDecl(name string) (*ast.FuncDecl, error) {
	for _, d := range f.F.Decls {
		if fd, ok := d.(*ast.FuncDecl); ok && fd.Name.Name == name {
			return fd, nil
		}
	}
	return nil, fmt.Errorf("%s: no func %s", f.Path, name)
}

func (f *File) text(n ast.Node) string {
	return string(f.Src[f.Fset.Position(n.Pos()).Offset:f.Fset.Position(n.End()).Offset])
}

func (f *File) line(n ast.Node) int { return f.Fset.Position(n.Pos()).Line }

// evalInt evaluates the small constant-expression language used for numeric constants:
// literals (1_000, 1e18), + - * /, int64(x), sdkmath.NewInt(x), sdk.NewInt(x), big.NewInt(x),
// new(big.Int).Exp(a, b, nil), time.Duration style products of known identifiers in env.
func evalInt(e ast.Expr, env map[string]*big.Int) (*big.Int, error) {
	switch v := e.(type) {
	case *ast.BasicLit:
		s := strings.ReplaceAll(v.Value, "_", "")
		if v.Kind == token.INT {
			x, ok := new(big.Int).SetString(s, 0)
			if !ok {
				return nil, fmt.Errorf("bad int %s", s)
			}
			return x, nil
		}
		if v.Kind == token.FLOAT {
			fl, _, err := big.ParseFloat(s, 10, 256, big.ToNearestEven)
			if err != nil {
				return nil, err
			}
			x, acc := fl.Int(nil)
			if acc != big.Exact {
				return nil, fmt.Errorf("non-integer float %s", s)
			}
			return x, nil
		}
	case *ast.ParenExpr:
		return evalInt(v.X, env)
	case *ast.Ident:
		if x, ok := env[v.Name]; ok {
			return x, nil
		}
	case *ast.SelectorExpr:
		if x, ok := env[exprString(v)]; ok {
			return x, nil
		}
	case *ast.UnaryExpr:
		x, err := evalInt(v.X, env)
		if err != nil {
			return nil, err
		}
		if v.Op == token.SUB {
			return new(big.Int).Neg(x), nil
		}
		if v.Op == token.ADD {
			return x, nil
		}
	case *ast.BinaryExpr:
		a, err := evalInt(v.X, env)
		if err != nil {
			return nil, err
		}
		b, err := evalInt(v.Y, env)
		if err != nil {
			return nil, err
		}
		switch v.Op {
		case token.ADD:
			return new(big.Int).Add(a, b), nil
		case token.SUB:
			return new(big.Int).Sub(a, b), nil
		case token.MUL:
			return new(big.Int).Mul(a, b), nil
		case token.QUO:
			if b.Sign() == 0 {
				return nil, fmt.Errorf("div by zero")
			}
			return new(big.Int).Quo(a, b), nil
		}
	case *ast.CallExpr:
		fn := exprString(v.Fun)
		switch fn {
		case "int64", "int", "uint64", "sdkmath.NewInt", "sdk.NewInt", "big.NewInt", "sdkmath.NewIntFromUint64", "time.Duration":
			if len(v.Args) == 1 {
				return evalInt(v.Args[0], env)
			}
		case "new(big.Int).Exp":
			if len(v.Args) == 3 {
				a, err := evalInt(v.Args[0], env)
				if err != nil {
					return nil, err
				}
				b, err := evalInt(v.Args[1], env)
				if err != nil {
					return nil, err
				}
				return new(big.Int).Exp(a, b, nil), nil
			}
		}
	}
	return nil, fmt.Errorf("unsupported constant expression %s", exprString(e))
}

func exprString(e ast.Expr) string {
	switch v := e.(type) {
	case *ast.Ident:
		return v.Name
	case *ast.SelectorExpr:
		return exprString(v.X) + "." + v.Sel.Name
	case *ast.CallExpr:
		args := make([]string, len(v.Args))
		for i, a := range v.Args {
			args[i] = exprString(a)
		}
		return exprString(v.Fun) + "(" + strings.Join(args, ", ") + ")"
	case *ast.BasicLit:
		return v.Value
	case *ast.ParenExpr:
		return "(" + exprString(v.X) + ")"
	case *ast.StarExpr:
		return "*" + exprString(v.X)
	case *ast.UnaryExpr:
		return v.Op.String() + exprString(v.X)
	case *ast.BinaryExpr:
		return exprString(v.X) + " " + v.Op.String() + " " + exprString(v.Y)
	case *ast.IndexExpr:
		return exprString(v.X) + "[" + exprString(v.Index) + "]"
	case *ast.CompositeLit:
		return exprString(v.Type) + "{…}"
	case *ast.ArrayType:
		return "[]" + exprString(v.Elt)
	case *ast.MapType:
		return "map[" + exprString(v.Key) + "]" + exprString(v.Value)
	case *ast.FuncLit:
		return "func{…}"
	case *ast.KeyValueExpr:
		return exprString(v.Key) + ": " + exprString(v.Value)
	case *ast.TypeAssertExpr:
		return exprString(v.X) + ".(" + exprString(v.Type) + ")"
	case *ast.SliceExpr:
		return exprString(v.X) + "[:]"
	case nil:
		return ""
	}
	return fmt.Sprintf("<%T>", e)
}

func strLit(e ast.Expr) (string, error) {
	if b, ok := e.(*ast.BasicLit); ok && b.Kind == token.STRING {
		return strconv.Unquote(b.Value)
	}
	return "", fmt.Errorf("not a string literal: %s", exprString(e))
}

// lean helpers
func leanStr(s string) string { return strconv.Quote(s) }
func leanStrList(xs []string) string {
	q := make([]string, len(xs))
	for i, x := range xs {
		q[i] = leanStr(x)
	}
	return "[" + strings.Join(q, ", ") + "]"
}
func leanBool(b bool) string {
	if b {
		return "true"
	}
	return "false"
}
