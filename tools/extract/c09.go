package main

// C09Hooks: for every wired reward source, the keeper functions that write a share-bearing record and
// whether a `Before…Modified` hook call precedes the write (or an `After…Created` hook call follows it)
// in the same function body.  A function with an un-dominated write is a *helper*: each of its call
// sites is then examined the same way (fixpoint), inside the keeper package and across /repo/x, /repo/app.
// Also: which SetHooks calls in app.go receive the incentive hooks, that the two savings hooks of
// x/incentive have empty bodies, what every other incentive hook body calls, and that no Kava code
// writes x/staking delegations directly.  Purely syntactic (go/ast), tables only.

import (
	"fmt"
	"go/ast"
	"go/token"
	"os"
	"path/filepath"
	"regexp"
	"sort"
	"strings"
)

func init() { Register("C09Hooks", emitC09Hooks) }

type c09Source struct {
	name    string   // reward source
	dir     string   // keeper package
	modRe   string   // receiver / path pattern identifying the module in other packages
	prims   []string // primitive writers of the share-bearing record
	before  []string // hooks that must precede a write
	created []string // hooks that follow the creating write
}

var c09Sources = []c09Source{
	{"cdp", "x/cdp/keeper", `(?i)cdp`, []string{"SetCDP", "DeleteCDP"}, []string{"BeforeCDPModified"}, []string{"AfterCDPCreated"}},
	{"hard-supply", "x/hard/keeper", `(?i)hard`, []string{"SetDeposit", "DeleteDeposit"}, []string{"BeforeDepositModified"}, []string{"AfterDepositCreated"}},
	{"hard-borrow", "x/hard/keeper", `(?i)hard`, []string{"SetBorrow", "DeleteBorrow"}, []string{"BeforeBorrowModified"}, []string{"AfterBorrowCreated"}},
	{"swap", "x/swap/keeper", `(?i)swap`, []string{"SetDepositorShares", "SetDepositorShares_Raw", "DeleteDepositorShares"}, []string{"BeforePoolDepositModified"}, []string{"AfterPoolDepositCreated"}},
	{"earn", "x/earn/keeper", `(?i)earn`, []string{"SetVaultShareRecord", "DeleteVaultShareRecord"}, []string{"BeforeVaultDepositModified"}, []string{"AfterVaultDepositCreated"}},
	{"savings", "x/savings/keeper", `(?i)savings`, []string{"SetDeposit", "DeleteDeposit"}, []string{"BeforeSavingsDepositModified"}, []string{"AfterSavingsDepositCreated"}},
}

type c09Call struct {
	name string
	recv string
	pos  token.Pos
	line int
	path []c09Branch // enclosing if/else and switch-case branches, outermost first
}

// c09Branch: the call lies in branch `arm` of the branching statement starting at `stmt`
type c09Branch struct {
	stmt token.Pos
	arm  int
}

// exclusive: the two calls lie in different arms of the same if/else or switch statement
func exclusive(a, b c09Call) bool {
	for _, x := range a.path {
		for _, y := range b.path {
			if x.stmt == y.stmt && x.arm != y.arm {
				return true
			}
		}
	}
	return false
}

// guardedFrom: call a lies in an arm of a branching statement that does not enclose call b
func guardedFrom(a, b c09Call) bool {
	for _, x := range a.path {
		found := false
		for _, y := range b.path {
			if x == y {
				found = true
			}
		}
		if !found {
			return true
		}
	}
	return false
}

type c09Func struct {
	file  string
	recv  string // receiver type ("" for plain functions)
	name  string
	calls []c09Call
}

func (f c09Func) key() string { return f.recv + "." + f.name }

func recvType(fd *ast.FuncDecl) string {
	if fd.Recv == nil || len(fd.Recv.List) == 0 {
		return ""
	}
	return strings.TrimPrefix(exprString(fd.Recv.List[0].Type), "*")
}

type c09Write struct {
	Source        string `json:"source"`
	File          string `json:"file"`
	Func          string `json:"func"`
	Line          int    `json:"line"`
	Write         string `json:"write"`
	Kind          string `json:"kind"` // before | before+created | before-if-exists | created | created-if-new | helper | genesis | unhooked
	Hook          string `json:"hook"`
	HookDominates bool   `json:"hookDominates"`
}

// callsOf lists the selector calls `x.Name(...)` of a function body in source order, each with the
// if/else and switch-case arms that enclose it.
func callsOf(f *File, body *ast.BlockStmt) []c09Call {
	var out []c09Call
	if body == nil {
		return nil
	}
	var walk func(n ast.Node, path []c09Branch)
	walk = func(n ast.Node, path []c09Branch) {
		if n == nil {
			return
		}
		switch v := n.(type) {
		case *ast.IfStmt:
			if v.Init != nil {
				walk(v.Init, path)
			}
			walk(v.Cond, path)
			walk(v.Body, append(append([]c09Branch{}, path...), c09Branch{v.Pos(), 0}))
			if v.Else != nil {
				walk(v.Else, append(append([]c09Branch{}, path...), c09Branch{v.Pos(), 1}))
			}
			return
		case *ast.SwitchStmt:
			if v.Init != nil {
				walk(v.Init, path)
			}
			if v.Tag != nil {
				walk(v.Tag, path)
			}
			for i, cc := range v.Body.List {
				walk(cc, append(append([]c09Branch{}, path...), c09Branch{v.Pos(), i}))
			}
			return
		case *ast.TypeSwitchStmt:
			for i, cc := range v.Body.List {
				walk(cc, append(append([]c09Branch{}, path...), c09Branch{v.Pos(), i}))
			}
			return
		case *ast.CallExpr:
			if se, ok := v.Fun.(*ast.SelectorExpr); ok {
				out = append(out, c09Call{se.Sel.Name, exprString(se.X), v.Pos(), f.line(v), path})
			}
		}
		// generic descent over the direct children
		var children []ast.Node
		first := true
		ast.Inspect(n, func(c ast.Node) bool {
			if first {
				first = false
				return true
			}
			if c != nil {
				children = append(children, c)
			}
			return false
		})
		for _, c := range children {
			walk(c, path)
		}
	}
	walk(body, nil)
	sort.SliceStable(out, func(i, j int) bool { return out[i].pos < out[j].pos })
	return out
}

func funcsOfDir(repo, dir string) ([]c09Func, error) {
	files, err := parseDir(repo, dir)
	if err != nil {
		return nil, err
	}
	var out []c09Func
	for _, f := range files {
		for _, d := range f.F.Decls {
			fd, ok := d.(*ast.FuncDecl)
			if !ok {
				continue
			}
			out = append(out, c09Func{f.Path, recvType(fd), fd.Name.Name, callsOf(f, fd.Body)})
		}
	}
	return out, nil
}

func inSet(xs []string, x string) bool {
	for _, y := range xs {
		if x == y {
			return true
		}
	}
	return false
}

// allGoFiles: non-test, non-generated .go files under the given roots.
func allGoFiles(repo string, roots ...string) ([]string, error) {
	var out []string
	for _, r := range roots {
		err := filepath.Walk(filepath.Join(repo, r), func(p string, info os.FileInfo, err error) error {
			if err != nil {
				return err
			}
			n := info.Name()
			if info.IsDir() {
				if n == "testutil" || n == "simulation" || n == "client" || n == "legacy" || n == "migrations" {
					return filepath.SkipDir
				}
				return nil
			}
			if strings.HasSuffix(n, ".go") && !strings.HasSuffix(n, "_test.go") && !strings.HasSuffix(n, "_verif.go") &&
				!strings.HasSuffix(n, ".pb.go") && !strings.HasSuffix(n, ".pb.gw.go") && n != "test_common.go" {
				rel, _ := filepath.Rel(repo, p)
				out = append(out, rel)
			}
			return nil
		})
		if err != nil {
			return nil, err
		}
	}
	sort.Strings(out)
	return out, nil
}

func analyseSource(repo string, src c09Source, external []c09Func) ([]c09Write, error) {
	funcs, err := funcsOfDir(repo, src.dir)
	if err != nil {
		return nil, err
	}
	// the hook wrappers and the primitive writers themselves are not examined
	skip := func(name string) bool { return inSet(src.prims, name) || inSet(src.before, name) || inSet(src.created, name) }
	// dominated: which hook call of the same body covers the write at calls[i].
	//   before            an unconditional Before…Modified call precedes the write
	//   before+created    a Before call guarded by "position exists" precedes it and an After…Created call follows
	//   before-if-exists  only the guarded Before call: accepted for calls of interest-sync helpers (they return
	//                     early when the position does not exist), not for primitive writes
	//   created           an After…Created call follows in the same branch (the position is new on this path)
	//   created-if-new    only a guarded After…Created call and no Before call: not accepted
	// Calls in different arms of one if/else or switch never cover each other.
	dominated := func(fn c09Func, i int) (kind, hook string, ok bool) {
		var b, cr *c09Call
		for j := 0; j < i; j++ {
			if inSet(src.before, fn.calls[j].name) && !exclusive(fn.calls[j], fn.calls[i]) {
				b = &fn.calls[j]
				break
			}
		}
		for j := i + 1; j < len(fn.calls); j++ {
			if inSet(src.created, fn.calls[j].name) && !exclusive(fn.calls[j], fn.calls[i]) {
				cr = &fn.calls[j]
				break
			}
		}
		at := func(c *c09Call) string { return fmt.Sprintf("%s@%d", c.name, c.line) }
		switch {
		case b != nil && !guardedFrom(*b, fn.calls[i]):
			return "before", at(b), true
		case b != nil && cr != nil:
			return "before+created", at(b) + " if the position exists, " + at(cr) + " if it is new", true
		case b != nil:
			return "before-if-exists", at(b) + " if the position exists", !inSet(src.prims, fn.calls[i].name)
		case cr != nil && !guardedFrom(*cr, fn.calls[i]):
			return "created", at(cr), true
		case cr != nil:
			return "created-if-new", at(cr) + " only if the position is new, no Before hook", false
		}
		return "", "", false
	}
	// writers: functions (receiver.name) containing a write that no hook call of their own body covers.
	// A call `x.Name(...)` refers to every function called Name other than the enclosing one.
	writers := map[string]string{} // key -> name
	isWrite := func(fn c09Func, cl c09Call) bool {
		if inSet(src.prims, cl.name) {
			return true
		}
		for k, n := range writers {
			if n == cl.name && k != fn.key() {
				return true
			}
		}
		return false
	}
	for changed := true; changed; {
		changed = false
		for _, fn := range funcs {
			if skip(fn.name) {
				continue
			}
			if _, done := writers[fn.key()]; done {
				continue
			}
			for i, cl := range fn.calls {
				if isWrite(fn, cl) {
					if k, _, _ := dominated(fn, i); k == "" {
						writers[fn.key()] = fn.name
						changed = true
						break
					}
				}
			}
		}
	}
	writerNames := []string{}
	for _, n := range writers {
		if !inSet(writerNames, n) {
			writerNames = append(writerNames, n)
		}
	}
	re := regexp.MustCompile(src.modRe)
	// callers of a helper: inside the package, or in another package through a receiver naming the module
	hasCaller := func(self c09Func) bool {
		for _, fn := range funcs {
			if fn.key() == self.key() {
				continue
			}
			for _, cl := range fn.calls {
				if cl.name == self.name {
					return true
				}
			}
		}
		for _, fn := range external {
			if strings.HasPrefix(fn.file, src.dir+"/") {
				continue
			}
			for _, cl := range fn.calls {
				if cl.name == self.name && (re.MatchString(cl.recv) || strings.HasPrefix(fn.file, filepath.Dir(src.dir)+"/")) {
					return true
				}
			}
		}
		return false
	}
	var out []c09Write
	for _, fn := range funcs {
		if skip(fn.name) {
			continue
		}
		for i, cl := range fn.calls {
			if !isWrite(fn, cl) {
				continue
			}
			w := c09Write{Source: src.name, File: fn.file, Func: fn.name, Line: cl.line, Write: cl.name}
			if k, h, ok := dominated(fn, i); k != "" {
				w.Kind, w.Hook, w.HookDominates = k, h, ok
			} else if hasCaller(fn) {
				// every call site of this helper is listed (and must be dominated) itself
				w.Kind, w.Hook, w.HookDominates = "helper", "callers of "+fn.name, true
			} else {
				w.Kind, w.HookDominates = "unhooked", false
			}
			out = append(out, w)
		}
	}
	// call sites in other packages
	for _, fn := range external {
		if strings.HasPrefix(fn.file, src.dir+"/") {
			continue
		}
		inModule := strings.HasPrefix(fn.file, filepath.Dir(src.dir)+"/")
		for i, cl := range fn.calls {
			if !(inSet(src.prims, cl.name) || inSet(writerNames, cl.name)) || !(re.MatchString(cl.recv) || inModule) {
				continue
			}
			w := c09Write{Source: src.name, File: fn.file, Func: fn.name, Line: cl.line, Write: cl.name}
			if k, h, ok := dominated(fn, i); k != "" {
				w.Kind, w.Hook, w.HookDominates = k, h, ok
			} else if fn.name == "InitGenesis" || fn.name == "ExportGenesis" {
				// genesis import/export moves positions and claims together; not an operation of the chain
				w.Kind, w.Hook, w.HookDominates = "genesis", fn.name+" is not a chain operation (positions and incentive claims are imported/exported together)", true
			} else {
				w.Kind, w.HookDominates = "unhooked", false
			}
			out = append(out, w)
		}
	}
	sort.SliceStable(out, func(i, j int) bool {
		if out[i].File != out[j].File {
			return out[i].File < out[j].File
		}
		return out[i].Line < out[j].Line
	})
	return out, nil
}

func emitC09Hooks(repo string) (string, any, error) {
	// every function of /repo/x and /repo/app (for cross-package call sites)
	paths, err := allGoFiles(repo, "x", "app")
	if err != nil {
		return "", nil, err
	}
	var external []c09Func
	for _, p := range paths {
		f, err := parseFile(repo, p)
		if err != nil {
			return "", nil, err
		}
		for _, d := range f.F.Decls {
			if fd, ok := d.(*ast.FuncDecl); ok {
				external = append(external, c09Func{f.Path, recvType(fd), fd.Name.Name, callsOf(f, fd.Body)})
			}
		}
	}

	var wired, savings []c09Write
	for _, src := range c09Sources {
		ws, err := analyseSource(repo, src, external)
		if err != nil {
			return "", nil, err
		}
		if len(ws) == 0 {
			return "", nil, fmt.Errorf("no share writes found for %s (writer names changed?)", src.name)
		}
		if src.name == "savings" {
			savings = append(savings, ws...)
		} else {
			wired = append(wired, ws...)
		}
	}

	// ---- x/incentive/keeper/hooks.go: what each hook body calls
	hf, err := parseFile(repo, "x/incentive/keeper/hooks.go")
	if err != nil {
		return "", nil, err
	}
	type hookBody struct{ Hook, Calls string }
	var bodies []hookBody
	savingsEmpty := true
	seenSavings := 0
	for _, d := range hf.F.Decls {
		fd, ok := d.(*ast.FuncDecl)
		if !ok || fd.Recv == nil || fd.Body == nil {
			continue
		}
		var names []string
		for _, cl := range callsOf(hf, fd.Body) {
			if strings.HasSuffix(cl.recv, ".k") || cl.recv == "h.k" {
				names = append(names, cl.name)
			}
		}
		bodies = append(bodies, hookBody{fd.Name.Name, strings.Join(names, ",")})
		if fd.Name.Name == "AfterSavingsDepositCreated" || fd.Name.Name == "BeforeSavingsDepositModified" {
			seenSavings++
			if len(fd.Body.List) != 0 {
				savingsEmpty = false
			}
		}
	}
	if seenSavings != 2 {
		return "", nil, fmt.Errorf("x/incentive/keeper/hooks.go: expected the two savings hooks, found %d", seenSavings)
	}

	// ---- app/app.go: SetHooks wiring
	af, err := parseFile(repo, "app/app.go")
	if err != nil {
		return "", nil, err
	}
	type wiring struct {
		Keeper    string
		Incentive bool
	}
	var wirings []wiring
	ast.Inspect(af.F, func(n ast.Node) bool {
		ce, ok := n.(*ast.CallExpr)
		if !ok {
			return true
		}
		if se, ok := ce.Fun.(*ast.SelectorExpr); ok && se.Sel.Name == "SetHooks" {
			txt := af.text(ce)
			wirings = append(wirings, wiring{exprString(se.X), strings.Contains(txt, "incentiveKeeper.Hooks()")})
		}
		return true
	})
	sort.Slice(wirings, func(i, j int) bool { return wirings[i].Keeper < wirings[j].Keeper })
	savingsWired := false
	for _, w := range wirings {
		if strings.Contains(strings.ToLower(w.Keeper), "savings") {
			savingsWired = true
		}
	}

	// ---- direct writes of x/staking delegations from Kava code (must be none: all delegation changes
	// go through x/staking's keeper, which calls its own hooks)
	var direct []string
	for _, fn := range external {
		for _, cl := range fn.calls {
			if cl.name == "SetDelegation" || cl.name == "RemoveDelegation" {
				direct = append(direct, fmt.Sprintf("%s:%d %s", fn.file, cl.line, cl.name))
			}
		}
	}

	// ---- Lean
	var sb strings.Builder
	sb.WriteString("namespace KV.Gen\n\n")
	sb.WriteString("/-- a call that writes a share-bearing record of a reward source, and the hook call that covers it -/\n")
	sb.WriteString("structure ShareWrite where\n  source : String\n  file : String\n  func : String\n  line : Nat\n  write : String\n  kind : String\n  hook : String\n  hookDominates : Bool\nderiving Repr, DecidableEq\n\n")
	emitList := func(name, doc string, ws []c09Write) {
		fmt.Fprintf(&sb, "/-- %s -/\ndef %s : List ShareWrite := [\n", doc, name)
		for i, w := range ws {
			sep := ","
			if i == len(ws)-1 {
				sep = ""
			}
			fmt.Fprintf(&sb, "  ⟨%s, %s, %s, %d, %s, %s, %s, %s⟩%s\n", leanStr(w.Source), leanStr(w.File), leanStr(w.Func), w.Line,
				leanStr(w.Write), leanStr(w.Kind), leanStr(w.Hook), leanBool(w.HookDominates), sep)
		}
		sb.WriteString("]\n\n")
	}
	emitList("shareWrites", "share writes of the wired sources (cdp, hard supply, hard borrow, swap, earn)", wired)
	emitList("savingsShareWrites", "share writes of x/savings, which is NOT a wired source", savings)
	fmt.Fprintf(&sb, "/-- x/incentive/keeper/hooks.go: AfterSavingsDepositCreated and BeforeSavingsDepositModified have empty bodies -/\ndef savingsHookBodiesEmpty : Bool := %s\n\n", leanBool(savingsEmpty))
	fmt.Fprintf(&sb, "/-- app/app.go: SetHooks is called on the savings keeper -/\ndef savingsHooksWired : Bool := %s\n\n", leanBool(savingsWired))
	sb.WriteString("/-- app/app.go: every `SetHooks` call and whether `incentiveKeeper.Hooks()` is among its arguments -/\ndef setHooksWiring : List (String × Bool) := [")
	for i, w := range wirings {
		if i > 0 {
			sb.WriteString(", ")
		}
		fmt.Fprintf(&sb, "(%s, %s)", leanStr(w.Keeper), leanBool(w.Incentive))
	}
	sb.WriteString("]\n\n")
	sb.WriteString("/-- x/incentive/keeper/hooks.go: hook method ↦ incentive keeper methods its body calls -/\ndef incentiveHookBodies : List (String × String) := [\n")
	for i, b := range bodies {
		sep := ","
		if i == len(bodies)-1 {
			sep = ""
		}
		fmt.Fprintf(&sb, "  (%s, %s)%s\n", leanStr(b.Hook), leanStr(b.Calls), sep)
	}
	sb.WriteString("]\n\n")
	fmt.Fprintf(&sb, "/-- Kava code calling x/staking SetDelegation / RemoveDelegation directly -/\ndef directDelegationWrites : List String := %s\n\n", leanStrList(direct))
	sb.WriteString("end KV.Gen\n")
	facts := map[string]any{"shareWrites": wired, "savingsShareWrites": savings, "savingsHookBodiesEmpty": savingsEmpty,
		"savingsHooksWired": savingsWired, "setHooksWiring": wirings, "incentiveHookBodies": bodies, "directDelegationWrites": direct}
	return sb.String(), facts, nil
}
