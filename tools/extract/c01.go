package main

// c01.go: tables for property C01 (deterministic replication).
//
//   Generated/C01MapRanges.lean  every `range` over a map-typed expression in non-test, non-client,
//                                non-simulation, non-generated files under x/ and app/, with the enclosing
//                                function and the syntactic *shape* of the loop body (what the body does
//                                with the iteration order); plus the range statements whose operand type
//                                the syntactic resolver could not decide.
//   Generated/C01Sources.lean    the other enumerable sources of nondeterminism: wall-clock reads,
//                                randomness, goroutines/select, package-level variables written outside
//                                init, non-store keeper fields, variables captured by invariant closures,
//                                sort calls.
//
// Tables and facts only. The obligations over them are in Props/C01.lean.

import (
	"fmt"
	"go/ast"
	"go/token"
	"sort"
	"strings"
)

func init() {
	Register("C01MapRanges", emitC01MapRanges)
	Register("C01Sources", emitC01Sources)
}

var c01World *World

func c01Load(repo string) (*World, error) {
	if c01World != nil && c01World.Repo == repo {
		return c01World, nil
	}
	w, err := loadWorld(repo, "x", "app")
	if err != nil {
		return nil, err
	}
	c01World = w
	return w, nil
}

func funcName(fd *ast.FuncDecl) string {
	if fd.Recv != nil && len(fd.Recv.List) == 1 {
		return recvName(fd.Recv.List[0].Type) + "." + fd.Name.Name
	}
	return fd.Name.Name
}

type mapRangeSite struct {
	File, Fn string
	Idx      int
	Line     int
	Expr     string
	Shape    string
}

type unresolvedRange struct {
	File, Fn, Expr string
	Line           int
}

// ---------------------------------------------------------------- loop-body shapes

// stmtsAfter returns the statements following `target` in the innermost block that contains it.
func stmtsAfter(body *ast.BlockStmt, target ast.Stmt) []ast.Stmt {
	var res []ast.Stmt
	found := false
	ast.Inspect(body, func(n ast.Node) bool {
		if found {
			return false
		}
		var list []ast.Stmt
		switch b := n.(type) {
		case *ast.BlockStmt:
			list = b.List
		case *ast.CaseClause:
			list = b.Body
		default:
			return true
		}
		for i, s := range list {
			if s == target {
				res = list[i+1:]
				found = true
				return false
			}
		}
		return true
	})
	return res
}

func identName(e ast.Expr) string {
	if id, ok := e.(*ast.Ident); ok {
		return id.Name
	}
	return ""
}

// isSortCallOn reports whether stmt is sort.Strings(x) / sort.Slice(x, …) / sort.SliceStable(x, …) / sort.Sort(x) on `name`.
func isSortCallOn(s ast.Stmt, name string) bool {
	es, ok := s.(*ast.ExprStmt)
	if !ok {
		return false
	}
	call, ok := es.X.(*ast.CallExpr)
	if !ok || len(call.Args) == 0 {
		return false
	}
	sel, ok := call.Fun.(*ast.SelectorExpr)
	if !ok || identName(sel.X) != "sort" {
		return false
	}
	switch sel.Sel.Name {
	case "Strings", "Slice", "SliceStable", "Sort", "Ints", "Stable":
		return identName(call.Args[0]) == name
	}
	return false
}

// collectTarget: the body only stores a value derived from the iteration variables into one slice
// (`s[i] = k; i++` or `s = append(s, f(k, v))`); returns the slice name.
func collectTarget(rs *ast.RangeStmt) string {
	body := rs.Body
	target := ""
	for _, st := range body.List {
		switch v := st.(type) {
		case *ast.IncDecStmt:
			if identName(v.X) == "" {
				return ""
			}
		case *ast.AssignStmt:
			if len(v.Lhs) != 1 || len(v.Rhs) != 1 || v.Tok != token.ASSIGN {
				return ""
			}
			name := ""
			switch l := v.Lhs[0].(type) {
			case *ast.IndexExpr: // s[i] = k, i a counter (not an iteration variable: that would be a map write)
				ix := identName(l.Index)
				if ix == "" || ix == identName(rs.Key) || (rs.Value != nil && ix == identName(rs.Value)) {
					return ""
				}
				name = identName(l.X)
			case *ast.Ident: // s = append(s, …)
				call, ok := v.Rhs[0].(*ast.CallExpr)
				if !ok || identName(call.Fun) != "append" || len(call.Args) < 2 || identName(call.Args[0]) != l.Name {
					return ""
				}
				name = l.Name
			}
			if name == "" || (target != "" && target != name) {
				return ""
			}
			target = name
		default:
			return ""
		}
	}
	return target
}

// declaredIn collects the names declared (:=, var, range) inside a statement list.
func declaredIn(n ast.Node) map[string]bool {
	d := map[string]bool{}
	ast.Inspect(n, func(n ast.Node) bool {
		switch v := n.(type) {
		case *ast.AssignStmt:
			if v.Tok == token.DEFINE {
				for _, l := range v.Lhs {
					if id := identName(l); id != "" {
						d[id] = true
					}
				}
			}
		case *ast.RangeStmt:
			if v.Tok == token.DEFINE {
				if id := identName(v.Key); id != "" {
					d[id] = true
				}
				if v.Value != nil {
					if id := identName(v.Value); id != "" {
						d[id] = true
					}
				}
			}
		case *ast.ValueSpec:
			for _, n := range v.Names {
				d[n.Name] = true
			}
		}
		return true
	})
	return d
}

func rootIdent(e ast.Expr) string {
	for {
		switch v := e.(type) {
		case *ast.Ident:
			return v.Name
		case *ast.SelectorExpr:
			e = v.X
		case *ast.IndexExpr:
			e = v.X
		case *ast.StarExpr:
			e = v.X
		case *ast.ParenExpr:
			e = v.X
		default:
			return ""
		}
	}
}

// loopShape classifies what a map-range body does with the (random) iteration order.
func loopShape(f *File, fnBody *ast.BlockStmt, rs *ast.RangeStmt) string {
	body := rs.Body
	after := stmtsAfter(fnBody, rs)

	// 1. keys/values collected into a slice which is sorted by the very next statement
	if t := collectTarget(rs); t != "" {
		if len(after) > 0 && isSortCallOn(after[0], t) {
			return "collectSorted"
		}
		return "collectUnsorted"
	}

	// 2. single statement bodies
	if len(body.List) == 1 {
		switch v := body.List[0].(type) {
		case *ast.AssignStmt:
			if len(v.Lhs) == 1 && len(v.Rhs) == 1 && v.Tok == token.ASSIGN {
				// acc = acc.Add(x)
				if acc := identName(v.Lhs[0]); acc != "" {
					if call, ok := v.Rhs[0].(*ast.CallExpr); ok {
						if sel, ok := call.Fun.(*ast.SelectorExpr); ok && identName(sel.X) == acc && sel.Sel.Name == "Add" && len(call.Args) == 1 {
							argText := f.text(call.Args[0])
							if strings.Contains(argText, "NewCoin(") {
								// coins = coins.Add(sdk.NewCoin(k, v)) … must be followed by `return coins.Sort()`
								if len(after) > 0 {
									if ret, ok := after[0].(*ast.ReturnStmt); ok && len(ret.Results) == 1 && f.text(ret.Results[0]) == acc+".Sort()" {
										return "coinsAddSorted"
									}
								}
								return "coinsAddUnsorted"
							}
							if id := identName(call.Args[0]); id != "" && id == identName(rs.Value) {
								return "sumFold"
							}
						}
					}
				}
				// m2[k] = v / m2[f(k)] = const : building another map, one entry per key
				if ix, ok := v.Lhs[0].(*ast.IndexExpr); ok && identName(ix.X) != "" {
					return "mapBuild"
				}
			}
		case *ast.IfStmt:
			if v.Init == nil && v.Else == nil {
				// if cond { flag = const; break }
				if len(v.Body.List) == 2 {
					as, ok1 := v.Body.List[0].(*ast.AssignStmt)
					br, ok2 := v.Body.List[1].(*ast.BranchStmt)
					if ok1 && ok2 && br.Tok == token.BREAK && len(as.Lhs) == 1 && len(as.Rhs) == 1 && as.Tok == token.ASSIGN {
						if lit := identName(as.Rhs[0]); (lit == "true" || lit == "false") && identName(as.Lhs[0]) != "" {
							return "setFlagBreak"
						}
					}
				}
				if len(v.Body.List) == 1 {
					// if cond { return fmt.Errorf(…) }
					if ret, ok := v.Body.List[0].(*ast.ReturnStmt); ok && len(ret.Results) == 1 {
						if call, ok := ret.Results[0].(*ast.CallExpr); ok {
							t := f.text(call.Fun)
							if t == "fmt.Errorf" || strings.HasSuffix(t, "Wrapf") || strings.HasSuffix(t, "Wrap") || t == "errors.New" {
								return "earlyReturnErr"
							}
						}
					}
					// if cond { m2[k] = const }
					if as, ok := v.Body.List[0].(*ast.AssignStmt); ok && len(as.Lhs) == 1 && as.Tok == token.ASSIGN {
						if ix, ok := as.Lhs[0].(*ast.IndexExpr); ok && identName(ix.X) != "" {
							return "mapBuild"
						}
					}
				}
			}
		}
	}

	// 3. universal quantifier: every return in the body returns the same literal constants, and every
	//    assignment / inc-dec targets a variable declared inside the body.
	local := declaredIn(body)
	okShape := true
	retText := ""
	nret := 0
	ast.Inspect(body, func(n ast.Node) bool {
		switch v := n.(type) {
		case *ast.AssignStmt:
			if v.Tok != token.DEFINE {
				for _, l := range v.Lhs {
					if r := rootIdent(l); r == "" || !local[r] {
						okShape = false
					}
				}
			}
		case *ast.IncDecStmt:
			if r := rootIdent(v.X); r == "" || !local[r] {
				okShape = false
			}
		case *ast.ReturnStmt:
			nret++
			var parts []string
			for _, r := range v.Results {
				id := identName(r)
				if id != "true" && id != "false" && id != "nil" {
					okShape = false
				}
				parts = append(parts, id)
			}
			t := strings.Join(parts, ",")
			if retText != "" && retText != t {
				okShape = false
			}
			retText = t
		case *ast.ExprStmt, *ast.GoStmt, *ast.DeferStmt, *ast.SendStmt:
			okShape = false // a call for effect
		case *ast.FuncLit:
			okShape = false
		}
		return true
	})
	if okShape && nret > 0 {
		return "earlyReturnConst"
	}

	// 4. additive fold: every assignment to a variable declared outside the body has the form
	//    `X = X.Add(e)` (X an identifier or an indexed accumulator), no return/break/goto, no call for effect.
	addOnly, nAdd := true, 0
	ast.Inspect(body, func(n ast.Node) bool {
		switch v := n.(type) {
		case *ast.AssignStmt:
			if v.Tok == token.DEFINE {
				return true
			}
			for i, l := range v.Lhs {
				if r := rootIdent(l); r != "" && local[r] {
					continue
				}
				ok := false
				if len(v.Lhs) == len(v.Rhs) && v.Tok == token.ASSIGN {
					if call, isCall := v.Rhs[i].(*ast.CallExpr); isCall && len(call.Args) == 1 {
						if sel, isSel := call.Fun.(*ast.SelectorExpr); isSel && sel.Sel.Name == "Add" && f.text(sel.X) == f.text(l) {
							ok = true
							nAdd++
						}
					}
				}
				if !ok {
					addOnly = false
				}
			}
		case *ast.IncDecStmt:
			if r := rootIdent(v.X); r == "" || !local[r] {
				addOnly = false
			}
		case *ast.ReturnStmt, *ast.ExprStmt, *ast.GoStmt, *ast.DeferStmt, *ast.SendStmt, *ast.FuncLit:
			addOnly = false
		case *ast.BranchStmt:
			if v.Tok != token.CONTINUE {
				addOnly = false
			}
		}
		return true
	})
	if addOnly && nAdd > 0 {
		return "addFold"
	}
	return "other"
}

// ---------------------------------------------------------------- emitters

func c01Scan(w *World) ([]mapRangeSite, []unresolvedRange, int) {
	var sites []mapRangeSite
	var unk []unresolvedRange
	total := 0
	for _, pkg := range w.sortedPkgs() {
		for _, f := range pkg.Files {
			for _, d := range f.F.Decls {
				fd, ok := d.(*ast.FuncDecl)
				if !ok || fd.Body == nil {
					continue
				}
				sc := w.newScope(pkg, f, fd)
				idx := 0
				ast.Inspect(fd.Body, func(n ast.Node) bool {
					rs, ok := n.(*ast.RangeStmt)
					if !ok {
						return true
					}
					total++
					switch sc.rangeKind(rs.X) {
					case KMap:
						sites = append(sites, mapRangeSite{f.Path, funcName(fd), idx, f.line(rs), f.text(rs.X), loopShape(f, fd.Body, rs)})
						idx++
					case KUnknown:
						unk = append(unk, unresolvedRange{f.Path, funcName(fd), f.text(rs.X), f.line(rs)})
					}
					return true
				})
			}
			// range statements inside package-level function literals
			for _, d := range f.F.Decls {
				g, ok := d.(*ast.GenDecl)
				if !ok {
					continue
				}
				ast.Inspect(g, func(n ast.Node) bool {
					if rs, ok := n.(*ast.RangeStmt); ok {
						total++
						unk = append(unk, unresolvedRange{f.Path, "<package-level>", f.text(rs.X), f.line(rs)})
					}
					return true
				})
			}
		}
	}
	sort.Slice(sites, func(i, j int) bool {
		if sites[i].File != sites[j].File {
			return sites[i].File < sites[j].File
		}
		return sites[i].Line < sites[j].Line
	})
	return sites, unk, total
}

func emitC01MapRanges(repo string) (string, any, error) {
	w, err := c01Load(repo)
	if err != nil {
		return "", nil, err
	}
	sites, unk, total := c01Scan(w)
	if total < 100 {
		return "", nil, fmt.Errorf("only %d range statements found under x/ and app/: scan is broken", total)
	}
	var sb strings.Builder
	sb.WriteString("namespace KV.Gen.C01\n\n")
	sb.WriteString("/-- one `range` over a map-typed expression; `shape` is the syntactic form of the loop body -/\n")
	sb.WriteString("structure MapRange where\n  file : String\n  fn : String\n  idx : Nat\n  line : Nat\n  expr : String\n  shape : String\nderiving DecidableEq, Repr\n\n")
	fmt.Fprintf(&sb, "/-- range statements scanned (all operand types) -/\ndef rangeStmtsScanned : Nat := %d\n\n", total)
	sb.WriteString("def mapRanges : List MapRange := [\n")
	for i, s := range sites {
		sep := ","
		if i == len(sites)-1 {
			sep = ""
		}
		fmt.Fprintf(&sb, "  ⟨%s, %s, %d, %d, %s, %s⟩%s\n", leanStr(s.File), leanStr(s.Fn), s.Idx, s.Line, leanStr(s.Expr), leanStr(s.Shape), sep)
	}
	sb.WriteString("]\n\n")
	_ = unk // listed in facts.json only; the C01 harness cross-checks the table against a go/types listing
	sb.WriteString("end KV.Gen.C01\n")
	return sb.String(), map[string]any{"mapRanges": sites, "unresolved": unk, "rangeStmts": total}, nil
}

// ---------------------------------------------------------------- other sources

type srcFact struct {
	File, Fn, What string
	Line           int
}

func leanFacts(sb *strings.Builder, name, doc string, fs []srcFact) {
	fmt.Fprintf(sb, "/-- %s: (file, function, detail) -/\ndef %s : List (String × String × String) := [\n", doc, name)
	for i, x := range fs {
		sep := ","
		if i == len(fs)-1 {
			sep = ""
		}
		fmt.Fprintf(sb, "  (%s, %s, %s)%s\n", leanStr(x.File), leanStr(x.Fn), leanStr(x.What), sep)
	}
	sb.WriteString("]\n\n")
}

func keeperFieldKind(t string) string {
	switch {
	case strings.Contains(t, "StoreKey"):
		return "storeKey"
	case strings.Contains(t, "codec.") || strings.Contains(t, "Codec"):
		return "codec"
	case strings.Contains(t, "Subspace"):
		return "subspace"
	case strings.Contains(t, "Keeper"):
		return "keeper"
	case strings.Contains(t, "Hooks"):
		return "hooks"
	case strings.Contains(t, "Router"):
		return "router"
	}
	return "other:" + t
}

func emitC01Sources(repo string) (string, any, error) {
	w, err := c01Load(repo)
	if err != nil {
		return "", nil, err
	}
	var timeNow, randUse, goSel, pkgWrites, keeperFields, captured, sorts, localTime []srcFact
	nFuncs := 0
	for _, pkg := range w.sortedPkgs() {
		for _, f := range pkg.Files {
			// randomness: imports
			for _, im := range f.F.Imports {
				p := strings.Trim(im.Path.Value, "\"")
				if p == "math/rand" || p == "crypto/rand" || p == "math/rand/v2" {
					randUse = append(randUse, srcFact{f.Path, "<import>", p, f.line(im)})
				}
			}
			// keeper struct fields
			if td, ok := pkg.Types["Keeper"]; ok && td.file == f && strings.HasSuffix(pkg.Dir, "/keeper") {
				if st, ok := td.spec.Type.(*ast.StructType); ok {
					for _, fl := range st.Fields.List {
						tt := f.text(fl.Type)
						names := []string{"<embedded>"}
						if len(fl.Names) > 0 {
							names = nil
							for _, n := range fl.Names {
								names = append(names, n.Name)
							}
						}
						for _, n := range names {
							keeperFields = append(keeperFields, srcFact{f.Path, n, keeperFieldKind(tt), f.line(fl)})
						}
					}
				}
			}
			for _, d := range f.F.Decls {
				fd, ok := d.(*ast.FuncDecl)
				if !ok || fd.Body == nil {
					continue
				}
				nFuncs++
				fn := funcName(fd)
				var sc *Scope
				// parent-tracking walk
				var stack []ast.Node
				ast.Inspect(fd.Body, func(n ast.Node) bool {
					if n == nil {
						stack = stack[:len(stack)-1]
						return true
					}
					switch v := n.(type) {
					case *ast.CallExpr:
						t := f.text(v.Fun)
						if t == "time.Now" {
							// must be a direct argument of a telemetry.* call
							what := "not-telemetry"
							if len(stack) > 0 {
								if pc, ok := stack[len(stack)-1].(*ast.CallExpr); ok && strings.HasPrefix(f.text(pc.Fun), "telemetry.") {
									what = "telemetry"
								}
							}
							timeNow = append(timeNow, srcFact{f.Path, fn, what, f.line(v)})
						}
						// values of type time.Time built in the HOST's time zone: time.Unix & co. return time.Local times,
						// x.Local() / x.In(loc) / time.LoadLocation / time.ParseInLocation / time.Parse depend on the host's
						// zone database or TZ.  detail = `utc` when the result is converted at once (`.UTC()` on the call, or
						// the call is an argument of tmtime.Canonical), `local` otherwise.
						isLocal := t == "time.Unix" || t == "time.UnixMilli" || t == "time.UnixMicro" || t == "time.LoadLocation" ||
							t == "time.ParseInLocation" || t == "time.Parse" || strings.HasSuffix(t, ".Local") || strings.HasSuffix(t, ".In")
						if t == "time.Date" && len(v.Args) == 8 && f.text(v.Args[7]) != "time.UTC" {
							isLocal = true
						}
						if isLocal {
							what := "local"
							if len(stack) > 1 {
								if sel, ok := stack[len(stack)-1].(*ast.SelectorExpr); ok && sel.Sel.Name == "UTC" {
									what = "utc"
								}
							}
							if len(stack) > 0 {
								if pc, ok := stack[len(stack)-1].(*ast.CallExpr); ok && strings.HasSuffix(f.text(pc.Fun), "Canonical") {
									what = "utc"
								}
							}
							localTime = append(localTime, srcFact{f.Path, fn, t + ":" + what, f.line(v)})
						}
						if strings.HasPrefix(t, "sort.") {
							sorts = append(sorts, srcFact{f.Path, fn, t, f.line(v)})
						}
						if strings.HasPrefix(t, "rand.") {
							randUse = append(randUse, srcFact{f.Path, fn, t, f.line(v)})
						}
					case *ast.GoStmt:
						goSel = append(goSel, srcFact{f.Path, fn, "go", f.line(v)})
					case *ast.SelectStmt:
						goSel = append(goSel, srcFact{f.Path, fn, "select", f.line(v)})
					case *ast.AssignStmt, *ast.IncDecStmt:
						if fd.Name.Name == "init" && fd.Recv == nil {
							break
						}
						var lhs []ast.Expr
						if as, ok := v.(*ast.AssignStmt); ok {
							if as.Tok == token.DEFINE {
								break
							}
							lhs = as.Lhs
						} else {
							lhs = []ast.Expr{v.(*ast.IncDecStmt).X}
						}
						for _, l := range lhs {
							// pkgvar = …, pkgvar[i] = …, pkgvar.f = …, otherpkg.Var = …
							r := rootIdent(l)
							if r == "" || r == "_" {
								continue
							}
							if sc == nil {
								sc = w.newScope(pkg, f, fd)
							}
							if _, local := sc.names[r]; local {
								continue
							}
							if vd, ok := pkg.Vars[r]; ok && vd.tok == token.VAR {
								pkgWrites = append(pkgWrites, srcFact{f.Path, fn, r, f.line(l)})
								continue
							}
							if sel, ok := l.(*ast.SelectorExpr); ok && identName(sel.X) == r {
								if p2, _, _ := w.importedPkg(f, r); p2 != nil {
									if vd, ok := p2.Vars[sel.Sel.Name]; ok && vd.tok == token.VAR {
										pkgWrites = append(pkgWrites, srcFact{f.Path, fn, r + "." + sel.Sel.Name, f.line(l)})
									}
								}
							}
						}
					}
					stack = append(stack, n)
					return true
				})
				// invariant constructors: variables of the outer function assigned inside the returned closure
				if fd.Type.Results != nil && len(fd.Type.Results.List) == 1 && f.text(fd.Type.Results.List[0].Type) == "sdk.Invariant" {
					outer := map[string]bool{}
					for _, st := range fd.Body.List {
						if as, ok := st.(*ast.AssignStmt); ok && as.Tok == token.DEFINE {
							for _, l := range as.Lhs {
								if id := identName(l); id != "" {
									outer[id] = true
								}
							}
						}
						if ds, ok := st.(*ast.DeclStmt); ok {
							for n := range declaredIn(ds) {
								outer[n] = true
							}
						}
					}
					seen := map[string]bool{}
					ast.Inspect(fd.Body, func(n ast.Node) bool {
						fl, ok := n.(*ast.FuncLit)
						if !ok {
							return true
						}
						inner := declaredIn(fl.Body)
						ast.Inspect(fl.Body, func(m ast.Node) bool {
							if as, ok := m.(*ast.AssignStmt); ok && as.Tok != token.DEFINE {
								for _, l := range as.Lhs {
									if r := rootIdent(l); r != "" && outer[r] && !inner[r] && !seen[r] {
										seen[r] = true
										captured = append(captured, srcFact{f.Path, fn, r, f.line(l)})
									}
								}
							}
							return true
						})
						return false
					})
				}
			}
		}
	}
	if nFuncs < 500 {
		return "", nil, fmt.Errorf("only %d functions scanned: scan is broken", nFuncs)
	}
	var sb strings.Builder
	sb.WriteString("namespace KV.Gen.C01\n\n")
	fmt.Fprintf(&sb, "def functionsScanned : Nat := %d\n\n", nFuncs)
	leanFacts(&sb, "timeNowCalls", "every `time.Now()` call; detail = `telemetry` when it is a direct argument of a telemetry.* call", timeNow)
	leanFacts(&sb, "randUses", "imports of math/rand or crypto/rand and rand.* calls", randUse)
	leanFacts(&sb, "goAndSelect", "`go` statements and `select` statements", goSel)
	leanFacts(&sb, "pkgVarWrites", "assignments to package-level variables outside init", pkgWrites)
	leanFacts(&sb, "keeperFields", "fields of every keeper struct, detail = kind of the field type", keeperFields)
	leanFacts(&sb, "invariantCaptures", "variables of an invariant constructor that the returned closure assigns (sticky across calls)", captured)
	leanFacts(&sb, "sortCalls", "calls into package sort", sorts)
	leanFacts(&sb, "localTimeCalls", "calls that build a time.Time in the host's time zone or consult its zone database (time.Unix, x.Local(), x.In, time.Parse, ...); detail = call:utc when converted to UTC at once, call:local otherwise", localTime)
	sb.WriteString("end KV.Gen.C01\n")
	facts := map[string]any{"timeNow": timeNow, "rand": randUse, "goSelect": goSel, "pkgVarWrites": pkgWrites,
		"keeperFields": keeperFields, "invariantCaptures": captured, "sortCalls": sorts, "localTime": localTime}
	return sb.String(), facts, nil
}
