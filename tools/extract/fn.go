package main

// fn.go — "tie 1b": a Go → Lean FUNCTION TRANSLATOR for the pure arithmetic core of the modules.
//
// For every function of an explicit list (fnlist.go) it regenerates, from /repo's current source, an
// executable Lean definition in lean/KavaVerif/Generated/Fn<Module>.lean.  Hand-written theorems
// (lean/KavaVerif/Proofs/TieFn<Module>.lean) state that each regenerated definition equals the hand-written
// model function the property theorems are about; an edit of such a Go function changes the generated Lean
// and the equality stops checking.
//
// The translator is deliberately small and syntactic (go/ast; types are inferred by the translator itself
// from declared parameter/variable types and the method tables of fnsem.go — the source is known to compile
// because the harness builds it on every run).  Everything outside the supported subset makes the function
// UNTRANSLATABLE: it is emitted as a stub with `<fn>_translated := false` (the tie theorem requires `true`)
// and reported as `EXTRACT-FAIL Fn<Module> <fn>: <reason>`.
//
// Shape of the output: a Go function body becomes a Lean `do` block in the monad `KV.Go.R`
// (ok / err / panic, Num/GoSem.lean), statement by statement:
//     x := e / var x T          let mut x := e
//     x = e                     x := e
//     p.f = e   (receiver)      p := { p with f := e }      (a pointer receiver that is assigned is returned
//                                                            as the first component of the result)
//     if c {…} else {…}         if c then … else …
//     return a, b               return (a, b)               (early return = Lean's `return` in `do`)
//     panic(…)                  R.panic
//     return …, <non-nil error> R.err
//     x.Mul(a, b) (math/big)    x := a * b                  (a big.Int variable is a mutable Int cell)
//     operations that can panic (Quo by zero, Coin.Sub below zero, …) are `(← KV.Go.op …)`.
//
// This file: types, environments, statements.  fnexpr.go: expressions and calls.  fnsem.go: the tables that
// give sdkmath / math/big / time / sdk.Coin operations their Lean meaning.  fnlist.go: the function list.

import (
	"fmt"
	"go/ast"
	"go/token"
	"os"
	"path/filepath"
	"sort"
	"strconv"
	"strings"
)

// ---------------------------------------------------------------------------------------------------------
// types

type kind int

const (
	kInt    kind = iota // sdkmath.Int                  → Int
	kI64                // int64, uint64, int, …        → Int (no wrap-around modelled)
	kDur                // time.Duration                → Int (nanoseconds)
	kTime               // time.Time                    → Int (unix nanoseconds)
	kCoin               // sdk.Coin                     → Int (amount; denominations assumed equal)
	kBig                // big.Int / *big.Int           → Int (a variable of this type is a mutable cell)
	kDec                // sdkmath.LegacyDec / sdk.Dec  → KV.Dec
	kBool               // bool                         → Bool
	kStruct             // small struct of the above    → generated Lean structure
	kUnit               // no result
	kErr                // error (only as last result / in returns)
	kSkip               // a type outside the subset (sdk.Context, Keeper, string, …): the value is dropped,
	//                     any use of it makes the function untranslatable
	kTuple
)

type Ty struct {
	K     kind
	S     *structInfo
	Elems []Ty
}

type structInfo struct {
	Lean    string
	Dir     string
	GoName  string
	Fields  []structField
	Skipped []string // Go fields of unsupported type (not part of the Lean structure)
}

type structField struct {
	Name string
	T    Ty
}

func (t Ty) lean() string {
	switch t.K {
	case kInt, kI64, kDur, kTime, kCoin, kBig:
		return "Int"
	case kDec:
		return "Dec"
	case kBool:
		return "Bool"
	case kStruct:
		return t.S.Lean
	case kUnit:
		return "Unit"
	case kTuple:
		parts := make([]string, len(t.Elems))
		for i, e := range t.Elems {
			parts[i] = e.lean()
		}
		return strings.Join(parts, " × ")
	}
	return "?"
}

func (t Ty) goName() string {
	switch t.K {
	case kInt:
		return "sdkmath.Int"
	case kI64:
		return "int64"
	case kDur:
		return "time.Duration"
	case kTime:
		return "time.Time"
	case kCoin:
		return "sdk.Coin"
	case kBig:
		return "big.Int"
	case kDec:
		return "sdk.Dec"
	case kBool:
		return "bool"
	case kStruct:
		return t.S.GoName
	case kUnit:
		return "()"
	case kErr:
		return "error"
	case kSkip:
		return "<untranslated type>"
	case kTuple:
		return "<tuple>"
	}
	return "?"
}

// sameTy: the value of type `from` may be used where `to` is expected (Go has already type-checked the
// source; this only guards the translator's own tables)
func sameTy(from, to Ty) bool {
	if from.K != to.K {
		return false
	}
	if from.K == kStruct {
		return from.S == to.S
	}
	if from.K == kTuple {
		if len(from.Elems) != len(to.Elems) {
			return false
		}
		for i := range from.Elems {
			if !sameTy(from.Elems[i], to.Elems[i]) {
				return false
			}
		}
	}
	return true
}

const (
	pathMath = "cosmossdk.io/math"
	pathSdk  = "github.com/cosmos/cosmos-sdk/types"
	pathBig  = "math/big"
	pathTime = "time"
)

// ---------------------------------------------------------------------------------------------------------
// module / package / function bookkeeping

type fnSpec struct {
	Dir  string // package directory relative to the repository
	Recv string // receiver type name ("" for a plain function)
	Name string
}

type fnPkg struct {
	dir   string
	files []*File
	imps  map[*File]map[string]string // alias → import path
}

type fnUnit struct {
	spec     fnSpec
	lean     string
	pkg      *fnPkg
	file     *File
	decl     *ast.FuncDecl
	recvName string // Go name of the receiver variable ("" if unnamed / plain function)
	recvTy   Ty
	recvPtr  bool
	mutRecv  bool // pointer receiver whose fields are assigned: the new receiver is part of the result
	params   []fnParam
	results  []Ty // without the trailing error
	hasErr   bool
	named    []string // named results (Go names), "" if unnamed
	state    int      // 0 new, 1 signature in progress, 2 signature done, 3 body in progress, 4 done
	err      error
	body     []string
	listed   bool
}

type fnParam struct {
	Name string
	T    Ty
	Ptr  bool // declared *T
}

type fnModule struct {
	repo    string
	name    string
	pkgs    map[string]*fnPkg
	structs map[string]*structInfo
	sorder  []*structInfo
	units   map[string]*fnUnit
	order   []*fnUnit
	names   map[string]string // lean name → unit key (collision detection)
}

func (s fnSpec) key() string { return s.Dir + "|" + s.Recv + "|" + s.Name }
func (s fnSpec) String() string {
	if s.Recv != "" {
		return s.Dir + " (" + s.Recv + ")." + s.Name
	}
	return s.Dir + " " + s.Name
}

func (m *fnModule) pkg(dir string) (*fnPkg, error) {
	if p, ok := m.pkgs[dir]; ok {
		return p, nil
	}
	ents, err := os.ReadDir(filepath.Join(m.repo, dir))
	if err != nil {
		return nil, err
	}
	p := &fnPkg{dir: dir, imps: map[*File]map[string]string{}}
	for _, e := range ents {
		n := e.Name()
		// generated protobuf files are kept: message structs (e.g. hard's InterestRateModel) live there
		if e.IsDir() || !strings.HasSuffix(n, ".go") || strings.HasSuffix(n, "_test.go") ||
			strings.HasSuffix(n, "_verif.go") || strings.HasSuffix(n, ".pb.gw.go") {
			continue
		}
		f, err := parseFile(m.repo, filepath.Join(dir, n))
		if err != nil {
			return nil, err
		}
		imps := map[string]string{}
		for _, im := range f.F.Imports {
			path, err := strconv.Unquote(im.Path.Value)
			if err != nil {
				return nil, err
			}
			alias := path[strings.LastIndex(path, "/")+1:]
			if im.Name != nil {
				alias = im.Name.Name
			}
			imps[alias] = path
		}
		p.imps[f] = imps
		p.files = append(p.files, f)
	}
	sort.Slice(p.files, func(i, j int) bool { return p.files[i].Path < p.files[j].Path })
	m.pkgs[dir] = p
	return p, nil
}

func (p *fnPkg) findFunc(recv, name string) (*File, *ast.FuncDecl) {
	for _, f := range p.files {
		for _, d := range f.F.Decls {
			fd, ok := d.(*ast.FuncDecl)
			if !ok || fd.Name.Name != name {
				continue
			}
			r := ""
			if fd.Recv != nil && len(fd.Recv.List) == 1 {
				r = typeBaseName(fd.Recv.List[0].Type)
			}
			if r == recv {
				return f, fd
			}
		}
	}
	return nil, nil
}

func (p *fnPkg) findType(name string) (*File, *ast.TypeSpec) {
	for _, f := range p.files {
		for _, d := range f.F.Decls {
			g, ok := d.(*ast.GenDecl)
			if !ok || g.Tok != token.TYPE {
				continue
			}
			for _, s := range g.Specs {
				ts := s.(*ast.TypeSpec)
				if ts.Name.Name == name {
					return f, ts
				}
			}
		}
	}
	return nil, nil
}

func (p *fnPkg) findValue(name string) (*File, *ast.ValueSpec, int, token.Token) {
	for _, f := range p.files {
		for _, d := range f.F.Decls {
			g, ok := d.(*ast.GenDecl)
			if !ok || (g.Tok != token.VAR && g.Tok != token.CONST) {
				continue
			}
			for _, s := range g.Specs {
				vs := s.(*ast.ValueSpec)
				for i, n := range vs.Names {
					if n.Name == name {
						return f, vs, i, g.Tok
					}
				}
			}
		}
	}
	return nil, nil, 0, token.ILLEGAL
}

// assignedAnywhere: is the package-level variable `name` the target of an assignment somewhere in the package
// (then its initialiser does not determine its value)
func (p *fnPkg) assignedAnywhere(name string) bool {
	found := false
	for _, f := range p.files {
		ast.Inspect(f.F, func(n ast.Node) bool {
			switch s := n.(type) {
			case *ast.AssignStmt:
				if s.Tok == token.DEFINE {
					return true
				}
				for _, l := range s.Lhs {
					if id, ok := l.(*ast.Ident); ok && id.Name == name && id.Obj != nil && id.Obj.Kind == ast.Var {
						if _, isTop := id.Obj.Decl.(*ast.ValueSpec); isTop {
							found = true
						}
					}
				}
			case *ast.IncDecStmt:
				if id, ok := s.X.(*ast.Ident); ok && id.Name == name && id.Obj != nil {
					if _, isTop := id.Obj.Decl.(*ast.ValueSpec); isTop {
						found = true
					}
				}
			}
			return true
		})
	}
	return found
}

func typeBaseName(e ast.Expr) string {
	switch v := e.(type) {
	case *ast.StarExpr:
		return typeBaseName(v.X)
	case *ast.Ident:
		return v.Name
	}
	return ""
}

func kavaDir(path string) (string, bool) {
	if strings.HasPrefix(path, kavaModule) {
		return strings.TrimPrefix(path, kavaModule), true
	}
	return "", false
}

// resolveType: the translator's view of a Go type expression written in file f of package p
func (m *fnModule) resolveType(p *fnPkg, f *File, e ast.Expr) (Ty, error) {
	switch v := e.(type) {
	case *ast.StarExpr:
		return m.resolveType(p, f, v.X)
	case *ast.ParenExpr:
		return m.resolveType(p, f, v.X)
	case *ast.Ident:
		switch v.Name {
		case "int64", "uint64", "int", "uint", "int32", "uint32":
			return Ty{K: kI64}, nil
		case "bool":
			return Ty{K: kBool}, nil
		case "error":
			return Ty{K: kErr}, nil
		case "string", "byte", "float64", "any":
			return Ty{K: kSkip}, nil
		}
		return m.namedType(p, v.Name)
	case *ast.SelectorExpr:
		id, ok := v.X.(*ast.Ident)
		if !ok {
			return Ty{K: kSkip}, nil
		}
		path := p.imps[f][id.Name]
		switch path {
		case pathMath:
			switch v.Sel.Name {
			case "Int":
				return Ty{K: kInt}, nil
			case "LegacyDec":
				return Ty{K: kDec}, nil
			}
		case pathSdk:
			switch v.Sel.Name {
			case "Int":
				return Ty{K: kInt}, nil
			case "Dec":
				return Ty{K: kDec}, nil
			case "Coin":
				return Ty{K: kCoin}, nil
			}
		case pathBig:
			if v.Sel.Name == "Int" {
				return Ty{K: kBig}, nil
			}
		case pathTime:
			switch v.Sel.Name {
			case "Time":
				return Ty{K: kTime}, nil
			case "Duration":
				return Ty{K: kDur}, nil
			}
		}
		if dir, ok := kavaDir(path); ok {
			q, err := m.pkg(dir)
			if err != nil {
				return Ty{K: kSkip}, nil
			}
			return m.namedType(q, v.Sel.Name)
		}
		return Ty{K: kSkip}, nil
	}
	return Ty{K: kSkip}, nil
}

// namedType: a type declared in one of the repository's own packages.  A struct becomes a Lean structure of
// its supported fields; a struct without any supported field (Keeper, …) and every other named type is kSkip.
func (m *fnModule) namedType(p *fnPkg, name string) (Ty, error) {
	key := p.dir + "." + name
	if s, ok := m.structs[key]; ok {
		if s == nil {
			return Ty{K: kSkip}, nil
		}
		return Ty{K: kStruct, S: s}, nil
	}
	f, ts := p.findType(name)
	if ts == nil {
		return Ty{K: kSkip}, nil
	}
	st, ok := ts.Type.(*ast.StructType)
	if !ok {
		// a named non-struct type: use its underlying type when that is in the subset (type X int64)
		m.structs[key] = nil
		t, err := m.resolveType(p, f, ts.Type)
		if err == nil && (t.K == kI64 || t.K == kBool) {
			return t, nil
		}
		return Ty{K: kSkip}, nil
	}
	m.structs[key] = nil // recursion guard
	si := &structInfo{Lean: name, Dir: p.dir, GoName: name}
	for _, fld := range st.Fields.List {
		t, err := m.resolveType(p, f, fld.Type)
		if err != nil {
			return Ty{}, err
		}
		for _, n := range fld.Names {
			if strings.HasPrefix(n.Name, "XXX_") {
				continue
			}
			if t.K == kSkip || t.K == kErr {
				si.Skipped = append(si.Skipped, n.Name)
				continue
			}
			si.Fields = append(si.Fields, structField{n.Name, t})
		}
		if len(fld.Names) == 0 {
			si.Skipped = append(si.Skipped, "(embedded "+exprString(fld.Type)+")")
		}
	}
	if len(si.Fields) == 0 {
		return Ty{K: kSkip}, nil
	}
	for _, o := range m.sorder {
		if o.Lean == si.Lean {
			si.Lean = strings.ReplaceAll(strings.ReplaceAll(p.dir, "/", "_"), "x_", "") + "_" + name
		}
	}
	m.structs[key] = si
	m.sorder = append(m.sorder, si)
	return Ty{K: kStruct, S: si}, nil
}

func (s *structInfo) field(name string) (Ty, bool) {
	for _, f := range s.Fields {
		if f.Name == name {
			return f.T, true
		}
	}
	return Ty{}, false
}

// ---------------------------------------------------------------------------------------------------------
// units: signature, then body

func (m *fnModule) unit(spec fnSpec) (*fnUnit, error) {
	if u, ok := m.units[spec.key()]; ok {
		return u, nil
	}
	p, err := m.pkg(spec.Dir)
	if err != nil {
		return nil, err
	}
	f, fd := p.findFunc(spec.Recv, spec.Name)
	if fd == nil {
		return nil, fmt.Errorf("no function %s", spec)
	}
	u := &fnUnit{spec: spec, pkg: p, file: f, decl: fd}
	u.lean = leanIdent(spec.Name)
	if k, clash := m.names[u.lean]; clash && k != spec.key() {
		u.lean = leanIdent(spec.Recv + "_" + spec.Name)
	}
	m.names[u.lean] = spec.key()
	m.units[spec.key()] = u
	return u, nil
}

// signature resolves parameter and result types (needed by callers before the body is translated)
func (m *fnModule) signature(u *fnUnit) error {
	if u.state >= 2 {
		return u.err
	}
	u.state = 2
	fd := u.decl
	if fd.Body == nil {
		u.err = fmt.Errorf("no body")
		return u.err
	}
	if fd.Type.TypeParams != nil {
		u.err = fmt.Errorf("generic function")
		return u.err
	}
	if fd.Recv != nil && len(fd.Recv.List) == 1 {
		r := fd.Recv.List[0]
		t, err := m.resolveType(u.pkg, u.file, r.Type)
		if err != nil {
			u.err = err
			return err
		}
		u.recvTy = t
		_, u.recvPtr = r.Type.(*ast.StarExpr)
		if len(r.Names) == 1 && r.Names[0].Name != "_" {
			u.recvName = r.Names[0].Name
		}
		if t.K == kStruct && u.recvPtr && u.recvName != "" {
			u.mutRecv = m.mutatesReceiver(u, map[string]bool{})
		}
	}
	for _, fl := range fd.Type.Params.List {
		t, err := m.resolveType(u.pkg, u.file, fl.Type)
		if err != nil {
			u.err = err
			return err
		}
		if _, variadic := fl.Type.(*ast.Ellipsis); variadic {
			t = Ty{K: kSkip}
		}
		_, isPtr := fl.Type.(*ast.StarExpr)
		if len(fl.Names) == 0 {
			u.params = append(u.params, fnParam{"_", t, isPtr})
		}
		for _, n := range fl.Names {
			u.params = append(u.params, fnParam{n.Name, t, isPtr})
		}
	}
	if fd.Type.Results != nil {
		var all []Ty
		var names []string
		for _, fl := range fd.Type.Results.List {
			t, err := m.resolveType(u.pkg, u.file, fl.Type)
			if err != nil {
				u.err = err
				return err
			}
			n := len(fl.Names)
			if n == 0 {
				all = append(all, t)
				names = append(names, "")
			}
			for _, nm := range fl.Names {
				all = append(all, t)
				names = append(names, nm.Name)
			}
		}
		if len(all) > 0 && all[len(all)-1].K == kErr {
			u.hasErr = true
			all = all[:len(all)-1]
			names = names[:len(names)-1]
		}
		for i, t := range all {
			if t.K == kSkip || t.K == kErr {
				u.err = fmt.Errorf("result %d has a type outside the subset (%s)", i+1, exprString(resultTypeExpr(fd, i)))
				return u.err
			}
		}
		u.results = all
		u.named = names
	}
	return nil
}

func resultTypeExpr(fd *ast.FuncDecl, i int) ast.Expr {
	k := 0
	for _, fl := range fd.Type.Results.List {
		n := len(fl.Names)
		if n == 0 {
			n = 1
		}
		if i < k+n {
			return fl.Type
		}
		k += n
	}
	return nil
}

// mutatesReceiver: some `recv.field = …` in the body, or a call of a method of the same type that does
func (m *fnModule) mutatesReceiver(u *fnUnit, seen map[string]bool) bool {
	if seen[u.spec.key()] {
		return false
	}
	seen[u.spec.key()] = true
	mut := false
	ast.Inspect(u.decl.Body, func(n ast.Node) bool {
		switch s := n.(type) {
		case *ast.AssignStmt:
			for _, l := range s.Lhs {
				if se, ok := l.(*ast.SelectorExpr); ok {
					if id, ok := se.X.(*ast.Ident); ok && id.Name == u.recvName {
						mut = true
					}
				}
			}
		case *ast.CallExpr:
			if se, ok := s.Fun.(*ast.SelectorExpr); ok {
				if id, ok := se.X.(*ast.Ident); ok && id.Name == u.recvName {
					if f, fd := u.pkg.findFunc(u.spec.Recv, se.Sel.Name); fd != nil && fd.Recv != nil {
						if _, ptr := fd.Recv.List[0].Type.(*ast.StarExpr); ptr && len(fd.Recv.List[0].Names) == 1 {
							cu := &fnUnit{spec: fnSpec{u.spec.Dir, u.spec.Recv, se.Sel.Name}, pkg: u.pkg, file: f, decl: fd,
								recvName: fd.Recv.List[0].Names[0].Name}
							if m.mutatesReceiver(cu, seen) {
								mut = true
							}
						}
					}
				}
			}
		}
		return true
	})
	return mut
}

// resultTy: the Lean-side result type (mutated receiver first)
func (u *fnUnit) resultTy() Ty {
	var el []Ty
	if u.mutRecv {
		el = append(el, u.recvTy)
	}
	el = append(el, u.results...)
	switch len(el) {
	case 0:
		return Ty{K: kUnit}
	case 1:
		return el[0]
	}
	return Ty{K: kTuple, Elems: el}
}

// require: translate the unit (and, first, everything it calls); units are appended to m.order when done,
// so callees precede callers in the generated file
func (m *fnModule) require(u *fnUnit) error {
	switch u.state {
	case 4:
		return u.err
	case 3:
		return fmt.Errorf("recursive call of %s", u.spec.Name)
	}
	if err := m.signature(u); err != nil {
		u.state = 4
		m.order = append(m.order, u)
		return err
	}
	u.state = 3
	c := &fnCtx{m: m, u: u, used: map[string]bool{}, unset: map[string]bool{}}
	u.err = c.translate()
	if u.err == nil {
		u.body = c.lines
	}
	u.state = 4
	m.order = append(m.order, u)
	return u.err
}

// ---------------------------------------------------------------------------------------------------------
// function context: scopes, output

type lvar struct {
	lean    string
	t       Ty
	param   bool
	recv    bool
	ptr     bool // a struct reached through a pointer (pointer receiver / *T parameter / &T{…} / call result)
	nonNil  bool // for kErr variables: known to hold a non-nil error
	isNamed bool
}

type fnCtx struct {
	m      *fnModule
	u      *fnUnit
	scopes []map[string]*lvar
	used   map[string]bool // Lean names taken in this function
	unset  map[string]bool // Lean names of `var x T` / named results of nil-zero type not yet assigned
	lines  []string
	ind    int
	tmp    int
}

func (c *fnCtx) emit(format string, a ...any) {
	c.lines = append(c.lines, strings.Repeat("  ", c.ind)+fmt.Sprintf(format, a...))
}

func (c *fnCtx) push() { c.scopes = append(c.scopes, map[string]*lvar{}) }
func (c *fnCtx) pop()  { c.scopes = c.scopes[:len(c.scopes)-1] }

func (c *fnCtx) lookup(name string) *lvar {
	for i := len(c.scopes) - 1; i >= 0; i-- {
		if v, ok := c.scopes[i][name]; ok {
			return v
		}
	}
	return nil
}

var leanKeywords = map[string]bool{
	"in": true, "out": true, "end": true, "from": true, "at": true, "then": true, "else": true, "fun": true, "do": true,
	"let": true, "have": true, "show": true, "by": true, "with": true, "match": true, "if": true, "type": true,
	"Type": true, "open": true, "def": true, "theorem": true, "where": true, "for": true, "return": true,
	"mut": true, "try": true, "catch": true, "finally": true, "unless": true, "instance": true, "class": true,
	"structure": true, "namespace": true, "section": true, "variable": true, "universe": true, "import": true,
	"nomatch": true, "this": true, "Prop": true, "Sort": true, "deriving": true, "macro": true, "syntax": true,
	"using": true, "calc": true, "exact": true, "abbrev": true, "example": true, "private": true, "local": true,
	"max": true, "min": true, "pure": true, "bind": true, "some": true, "none": true, "true": true, "false": true,
	"P": true, "H": true, "Dec": true, "R": true,
}

func leanIdent(s string) string {
	if leanKeywords[s] {
		return s + "_"
	}
	return s
}

// declare a Go variable in the innermost scope; Lean `do` does not allow shadowing a `let mut`, so a Go
// variable that shadows another one gets a fresh Lean name
func (c *fnCtx) declare(name string, t Ty) *lvar {
	base := leanIdent(name)
	ln := base
	for i := 1; c.used[ln]; i++ {
		ln = fmt.Sprintf("%s_%d", base, i)
	}
	c.used[ln] = true
	v := &lvar{lean: ln, t: t}
	c.scopes[len(c.scopes)-1][name] = v
	return v
}

func (c *fnCtx) fresh(prefix string) string {
	for {
		c.tmp++
		n := fmt.Sprintf("%s_%d", prefix, c.tmp)
		if !c.used[n] {
			c.used[n] = true
			return n
		}
	}
}

func zeroValue(t Ty) (string, bool) {
	switch t.K {
	case kInt, kI64, kDur, kCoin, kBig:
		return "0", true
	case kDec:
		return "Dec.zero", true
	case kBool:
		return "false", true
	case kStruct:
		parts := make([]string, len(t.S.Fields))
		for i, f := range t.S.Fields {
			z, ok := zeroValue(f.T)
			if !ok {
				return "", false
			}
			parts[i] = z
		}
		return "(⟨" + strings.Join(parts, ", ") + "⟩ : " + t.S.Lean + ")", true
	}
	return "", false
}

// nilZero: Go's zero value of the type is a nil pointer inside (sdkmath.Int{}, sdk.Dec{}, sdk.Coin{}, a nil
// *big.Int): reading it before an assignment is a nil dereference, which is not modelled — rejected instead
func nilZero(t Ty, pointer bool) bool {
	return t.K == kInt || t.K == kDec || t.K == kCoin || (t.K == kBig && pointer)
}

// ---------------------------------------------------------------------------------------------------------
// body

func (c *fnCtx) translate() error {
	u := c.u
	c.push()
	if u.recvName != "" {
		v := c.declare(u.recvName, u.recvTy)
		v.param, v.recv, v.ptr = true, true, u.recvPtr
	}
	for _, p := range u.params {
		if p.Name == "_" {
			continue
		}
		v := c.declare(p.Name, p.T)
		v.param, v.ptr = true, p.Ptr
	}
	// parameters (and a mutated receiver) that are assigned in the body become `let mut` copies
	assigned := assignedIdents(u.decl.Body)
	if u.mutRecv {
		assigned[u.recvName] = true
	} else if u.recvName != "" && u.recvTy.K == kStruct && fieldAssigned(u.decl.Body, u.recvName) {
		assigned[u.recvName] = true // value receiver: the mutation is local to the callee
	}
	c.ind = 1
	names := []string{}
	if u.recvName != "" {
		names = append(names, u.recvName)
	}
	for _, p := range u.params {
		names = append(names, p.Name)
	}
	for _, n := range names {
		if v := c.lookup(n); v != nil && assigned[n] && v.t.K != kSkip {
			c.emit("let mut %s := %s", v.lean, v.lean)
		}
	}
	// named results are variables initialised to the zero value
	for i, n := range u.named {
		if n == "" || n == "_" {
			continue
		}
		t := u.results[i]
		z, ok := zeroValue(t)
		if !ok {
			return fmt.Errorf("named result %s: no zero value", n)
		}
		v := c.declare(n, t)
		v.isNamed = true
		c.emit("let mut %s : %s := %s", v.lean, t.lean(), z)
		_, ptr := resultTypeExpr(u.decl, i).(*ast.StarExpr)
		if nilZero(t, ptr) {
			c.unset[v.lean] = true
		}
	}
	if u.hasErr {
		// a named error result is only supported through explicit `return …, err`
		if fl := u.decl.Type.Results.List; len(fl[len(fl)-1].Names) == 1 {
			v := c.declare(fl[len(fl)-1].Names[0].Name, Ty{K: kErr})
			v.isNamed = true
		}
	}
	terminated, err := c.block(u.decl.Body.List)
	if err != nil {
		return err
	}
	if !terminated {
		if len(u.results) > 0 || u.hasErr {
			return fmt.Errorf("control reaches the end of a function with results")
		}
		c.emitReturn(nil)
	}
	return nil
}

func assignedIdents(b *ast.BlockStmt) map[string]bool {
	out := map[string]bool{}
	ast.Inspect(b, func(n ast.Node) bool {
		switch s := n.(type) {
		case *ast.AssignStmt:
			if s.Tok != token.DEFINE {
				for _, l := range s.Lhs {
					if id, ok := l.(*ast.Ident); ok {
						out[id.Name] = true
					}
				}
			}
		case *ast.IncDecStmt:
			if id, ok := s.X.(*ast.Ident); ok {
				out[id.Name] = true
			}
		}
		return true
	})
	return out
}

func fieldAssigned(b *ast.BlockStmt, recv string) bool {
	found := false
	ast.Inspect(b, func(n ast.Node) bool {
		if s, ok := n.(*ast.AssignStmt); ok {
			for _, l := range s.Lhs {
				if se, ok := l.(*ast.SelectorExpr); ok {
					if id, ok := se.X.(*ast.Ident); ok && id.Name == recv {
						found = true
					}
				}
			}
		}
		return true
	})
	return found
}

// emitReturn: `return (recv?, values…)`
func (c *fnCtx) emitReturn(vals []string) {
	var parts []string
	if c.u.mutRecv {
		parts = append(parts, c.lookupRecv().lean)
	}
	parts = append(parts, vals...)
	switch len(parts) {
	case 0:
		c.emit("return ()")
	case 1:
		c.emit("return %s", parts[0])
	default:
		c.emit("return (%s)", strings.Join(parts, ", "))
	}
}

func (c *fnCtx) lookupRecv() *lvar {
	return c.scopes[0][c.u.recvName]
}

// block translates a statement list; the result says whether control cannot fall out of its end
func (c *fnCtx) block(stmts []ast.Stmt) (bool, error) {
	start := len(c.lines)
	for i := 0; i < len(stmts); i++ {
		// `v, err := f(…)` followed by `if err != nil { return …, err }` is the monadic bind itself
		skipNext := false
		if i+1 < len(stmts) && isErrPropagation(stmts[i], stmts[i+1]) {
			skipNext = true
		}
		term, err := c.stmt(stmts[i], skipNext)
		if err != nil {
			return false, err
		}
		if skipNext {
			i++
		}
		if term {
			if i+1 < len(stmts) {
				return false, fmt.Errorf("%s:%d: unreachable statements after a terminating statement", c.u.file.Path, c.u.file.line(stmts[i+1]))
			}
			return true, nil
		}
	}
	if len(c.lines) == start {
		c.emit("pure ()")
	}
	return false, nil
}

// isErrPropagation: s1 assigns `…, err :=|= call(…)` and s2 is `if err != nil { return …, err }`
func isErrPropagation(s1, s2 ast.Stmt) bool {
	as, ok := s1.(*ast.AssignStmt)
	if !ok || len(as.Rhs) != 1 || len(as.Lhs) < 1 {
		return false
	}
	if _, ok := as.Rhs[0].(*ast.CallExpr); !ok {
		return false
	}
	last, ok := as.Lhs[len(as.Lhs)-1].(*ast.Ident)
	if !ok || last.Name == "_" {
		return false
	}
	return isErrCheckReturn(s2, last.Name)
}

func isErrCheckReturn(s ast.Stmt, errName string) bool {
	is, ok := s.(*ast.IfStmt)
	if !ok || is.Init != nil || is.Else != nil || len(is.Body.List) != 1 {
		return false
	}
	be, ok := is.Cond.(*ast.BinaryExpr)
	if !ok || be.Op != token.NEQ {
		return false
	}
	x, ok1 := be.X.(*ast.Ident)
	y, ok2 := be.Y.(*ast.Ident)
	if !ok1 || !ok2 || x.Name != errName || y.Name != "nil" {
		return false
	}
	rs, ok := is.Body.List[0].(*ast.ReturnStmt)
	if !ok || len(rs.Results) == 0 {
		return false
	}
	l, ok := rs.Results[len(rs.Results)-1].(*ast.Ident)
	return ok && l.Name == errName
}

func (c *fnCtx) errAt(n ast.Node, format string, a ...any) error {
	return fmt.Errorf("%s:%d: %s", c.u.file.Path, c.u.file.line(n), fmt.Sprintf(format, a...))
}

func (c *fnCtx) stmt(s ast.Stmt, errBind bool) (bool, error) {
	switch v := s.(type) {
	case *ast.EmptyStmt:
		return false, nil
	case *ast.BlockStmt:
		c.push()
		defer c.pop()
		return c.block(v.List)
	case *ast.DeclStmt:
		return false, c.declStmt(v)
	case *ast.AssignStmt:
		return false, c.assign(v, errBind)
	case *ast.IncDecStmt:
		id, ok := v.X.(*ast.Ident)
		if !ok {
			return false, c.errAt(v, "unsupported ++/-- target")
		}
		lv := c.lookup(id.Name)
		if lv == nil || lv.t.K != kI64 {
			return false, c.errAt(v, "++/-- on a non-integer variable")
		}
		op := "+"
		if v.Tok == token.DEC {
			op = "-"
		}
		c.emit("%s := %s %s 1", lv.lean, lv.lean, op)
		return false, nil
	case *ast.ExprStmt:
		return c.exprStmt(v)
	case *ast.ReturnStmt:
		return true, c.returnStmt(v)
	case *ast.IfStmt:
		return c.ifStmt(v)
	}
	return false, c.errAt(s, "unsupported statement %T", s)
}

func (c *fnCtx) declStmt(d *ast.DeclStmt) error {
	g, ok := d.Decl.(*ast.GenDecl)
	if !ok || g.Tok != token.VAR {
		return c.errAt(d, "unsupported declaration")
	}
	for _, sp := range g.Specs {
		vs := sp.(*ast.ValueSpec)
		if len(vs.Values) > 0 {
			if len(vs.Values) != len(vs.Names) {
				return c.errAt(d, "unsupported var declaration with a multi-value initialiser")
			}
			for i, n := range vs.Names {
				val, err := c.expr(vs.Values[i])
				if err != nil {
					return err
				}
				t := val.t
				if vs.Type != nil {
					dt, err := c.m.resolveType(c.u.pkg, c.u.file, vs.Type)
					if err != nil {
						return err
					}
					if val.lit && (dt.K == kDur || dt.K == kI64) {
						t = dt
					} else if !sameTy(val.t, dt) {
						return c.errAt(d, "initialiser of %s has type %s, declared %s", n.Name, val.t.goName(), dt.goName())
					}
				}
				if err := c.checkStorable(d, val); err != nil {
					return err
				}
				lv := c.declare(n.Name, t)
				c.emit("let mut %s : %s := %s", lv.lean, t.lean(), val.s)
			}
			continue
		}
		if vs.Type == nil {
			return c.errAt(d, "var without type")
		}
		t, err := c.m.resolveType(c.u.pkg, c.u.file, vs.Type)
		if err != nil {
			return err
		}
		if t.K == kErr {
			for _, n := range vs.Names {
				c.declare(n.Name, t)
			}
			continue
		}
		z, ok := zeroValue(t)
		if !ok {
			return c.errAt(d, "var of a type outside the subset (%s)", exprString(vs.Type))
		}
		_, ptr := vs.Type.(*ast.StarExpr)
		for _, n := range vs.Names {
			lv := c.declare(n.Name, t)
			c.emit("let mut %s : %s := %s", lv.lean, t.lean(), z)
			if nilZero(t, ptr) {
				c.unset[lv.lean] = true
			}
		}
	}
	return nil
}

// checkStorable: a value stored into a variable must not alias another big.Int cell
func (c *fnCtx) checkStorable(n ast.Node, v val) error {
	if v.t.K == kBig && !v.fresh {
		return c.errAt(n, "a *big.Int that aliases another variable is stored (aliasing is not modelled)")
	}
	if v.t.K == kStruct && v.structPtr {
		return c.errAt(n, "a struct pointer is copied into another variable (aliasing is not modelled)")
	}
	if v.t.K == kSkip || v.t.K == kErr || v.t.K == kUnit {
		return c.errAt(n, "value of a type outside the subset (%s)", v.t.goName())
	}
	return nil
}

func (c *fnCtx) assign(as *ast.AssignStmt, errBind bool) error {
	switch as.Tok {
	case token.DEFINE, token.ASSIGN:
	case token.ADD_ASSIGN, token.SUB_ASSIGN, token.MUL_ASSIGN:
		if len(as.Lhs) != 1 || len(as.Rhs) != 1 {
			return c.errAt(as, "unsupported compound assignment")
		}
		op := map[token.Token]token.Token{token.ADD_ASSIGN: token.ADD, token.SUB_ASSIGN: token.SUB, token.MUL_ASSIGN: token.MUL}[as.Tok]
		return c.assign(&ast.AssignStmt{Lhs: as.Lhs, TokPos: as.TokPos, Tok: token.ASSIGN,
			Rhs: []ast.Expr{&ast.BinaryExpr{X: as.Lhs[0], OpPos: as.TokPos, Op: op, Y: as.Rhs[0]}}}, false)
	default:
		return c.errAt(as, "unsupported assignment operator %s", as.Tok)
	}
	// several values from one call
	if len(as.Rhs) == 1 && len(as.Lhs) > 1 {
		call, ok := as.Rhs[0].(*ast.CallExpr)
		if !ok {
			return c.errAt(as, "unsupported multi-value assignment")
		}
		return c.assignCall(as, call, errBind)
	}
	if len(as.Lhs) != len(as.Rhs) {
		return c.errAt(as, "unsupported assignment shape")
	}
	if len(as.Lhs) == 1 {
		if call, ok := as.Rhs[0].(*ast.CallExpr); ok {
			if tu, recvE, err := c.ownCallee(call); err != nil {
				return err
			} else if tu != nil && (tu.mutRecv || tu.hasErr) {
				_ = recvE
				return c.assignCall(as, call, errBind)
			}
		}
	}
	// parallel assignment: evaluate all right-hand sides first
	vals := make([]val, len(as.Rhs))
	for i, r := range as.Rhs {
		v, err := c.expr(r)
		if err != nil {
			return err
		}
		vals[i] = v
	}
	if len(vals) > 1 {
		for i := range vals {
			t := c.fresh("t")
			c.emit("let %s := %s", t, vals[i].s)
			vals[i].s = t
		}
	}
	for i, l := range as.Lhs {
		if err := c.store(as, l, vals[i], as.Tok == token.DEFINE); err != nil {
			return err
		}
	}
	return nil
}

// store: one assignment target
func (c *fnCtx) store(n ast.Node, l ast.Expr, v val, define bool) error {
	switch t := l.(type) {
	case *ast.Ident:
		if t.Name == "_" {
			return nil
		}
		if v.t.K == kErr {
			// an error value is only tracked as "known non-nil" for a later `return …, err`
			var lv *lvar
			if define && c.scopes[len(c.scopes)-1][t.Name] == nil {
				lv = c.declare(t.Name, v.t)
			} else if lv = c.lookup(t.Name); lv == nil {
				return c.errAt(n, "assignment to unknown variable %s", t.Name)
			}
			lv.nonNil = v.nonNil
			if !v.nonNil {
				return c.errAt(n, "an error value that is not a known non-nil error is stored")
			}
			return nil
		}
		if err := c.checkStorable(n, v); err != nil {
			return err
		}
		if define && c.scopes[len(c.scopes)-1][t.Name] == nil {
			lv := c.declare(t.Name, v.t)
			lv.ptr = v.newPtr
			c.emit("let mut %s : %s := %s", lv.lean, v.t.lean(), v.s)
			return nil
		}
		lv := c.lookup(t.Name)
		if lv == nil {
			return c.errAt(n, "assignment to unknown variable %s", t.Name)
		}
		if !(sameTy(v.t, lv.t) || (v.lit && (lv.t.K == kDur || lv.t.K == kI64))) {
			return c.errAt(n, "assignment of %s to %s variable %s", v.t.goName(), lv.t.goName(), t.Name)
		}
		if lv.t.K == kBig && lv.param {
			return c.errAt(n, "a *big.Int parameter is re-pointed")
		}
		c.emit("%s := %s", lv.lean, v.s)
		delete(c.unset, lv.lean)
		return nil
	case *ast.SelectorExpr:
		id, ok := t.X.(*ast.Ident)
		if !ok {
			return c.errAt(n, "unsupported assignment target %s", exprString(l))
		}
		lv := c.lookup(id.Name)
		if lv == nil || lv.t.K != kStruct {
			return c.errAt(n, "unsupported assignment target %s", exprString(l))
		}
		if lv.param && !lv.recv {
			return c.errAt(n, "field of a struct parameter is assigned (only the receiver may be mutated)")
		}
		ft, ok := lv.t.S.field(t.Sel.Name)
		if !ok {
			return c.errAt(n, "field %s of %s is outside the subset", t.Sel.Name, lv.t.S.GoName)
		}
		if !sameTy(v.t, ft) && !(v.lit && (ft.K == kDur || ft.K == kI64)) {
			return c.errAt(n, "assignment of %s to field %s of type %s", v.t.goName(), t.Sel.Name, ft.goName())
		}
		if v.t.K == kBig {
			return c.errAt(n, "a *big.Int is stored in a struct field (aliasing is not modelled)")
		}
		c.emit("%s := { %s with %s := %s }", lv.lean, lv.lean, leanIdent(t.Sel.Name), v.s)
		return nil
	}
	return c.errAt(n, "unsupported assignment target %s", exprString(l))
}

// assignCall: `a, b :=|= f(…)` for a translated function (several results, a mutated receiver, or an error)
func (c *fnCtx) assignCall(as *ast.AssignStmt, call *ast.CallExpr, errBind bool) error {
	tu, recvE, err := c.ownCallee(call)
	if err != nil {
		return err
	}
	if tu == nil {
		return c.errAt(as, "multi-value assignment from %s, which is not a function of the repository", exprString(call.Fun))
	}
	callStr, err := c.ownCallString(call, tu, recvE)
	if err != nil {
		return err
	}
	lhs := as.Lhs
	if tu.hasErr {
		if len(lhs) != len(tu.results)+1 {
			return c.errAt(as, "assignment count does not match the results of %s", tu.spec.Name)
		}
		last, ok := lhs[len(lhs)-1].(*ast.Ident)
		if !ok {
			return c.errAt(as, "unsupported error target")
		}
		if last.Name != "_" && !errBind {
			return c.errAt(as, "the error result of %s is not propagated by `if err != nil { return …, err }` right after the call", tu.spec.Name)
		}
		if last.Name == "_" {
			return c.errAt(as, "the error result of %s is discarded", tu.spec.Name)
		}
		// the error variable itself: declared so that later `err` references resolve (it is nil after the bind)
		if as.Tok == token.DEFINE && c.scopes[len(c.scopes)-1][last.Name] == nil {
			c.declare(last.Name, Ty{K: kErr})
		}
		lhs = lhs[:len(lhs)-1]
	} else if len(lhs) != len(tu.results) {
		return c.errAt(as, "assignment count does not match the results of %s", tu.spec.Name)
	}
	// bind into temporaries, then store one by one (targets may be new or existing variables, or `_`)
	var pats []string
	var tmps []string
	if tu.mutRecv {
		rv := c.lookupRecvOf(recvE)
		if rv == nil {
			return c.errAt(as, "%s mutates its receiver, which is not a variable here", tu.spec.Name)
		}
		t := c.fresh("r")
		pats = append(pats, t)
		tmps = append(tmps, t)
	}
	var resTmps []string
	for range tu.results {
		t := c.fresh("t")
		pats = append(pats, t)
		resTmps = append(resTmps, t)
	}
	switch len(pats) {
	case 0:
		c.emit("%s", callStr)
	case 1:
		c.emit("let %s ← %s", pats[0], callStr)
	default:
		c.emit("let (%s) ← %s", strings.Join(pats, ", "), callStr)
	}
	if tu.mutRecv {
		rv := c.lookupRecvOf(recvE)
		c.emit("%s := %s", rv.lean, tmps[0])
	}
	for i, l := range lhs {
		v := val{s: resTmps[i], t: tu.results[i], fresh: true, newPtr: tu.results[i].K == kStruct}
		if err := c.store(as, l, v, as.Tok == token.DEFINE); err != nil {
			return err
		}
	}
	return nil
}

func (c *fnCtx) lookupRecvOf(e ast.Expr) *lvar {
	id, ok := e.(*ast.Ident)
	if !ok {
		return nil
	}
	lv := c.lookup(id.Name)
	if lv == nil || lv.t.K != kStruct {
		return nil
	}
	if lv.param && !lv.recv {
		return nil
	}
	return lv
}

func (c *fnCtx) exprStmt(s *ast.ExprStmt) (bool, error) {
	call, ok := s.X.(*ast.CallExpr)
	if !ok {
		return false, c.errAt(s, "unsupported expression statement")
	}
	if id, ok := call.Fun.(*ast.Ident); ok && id.Name == "panic" && c.lookup("panic") == nil {
		c.emit("R.panic")
		return true, nil
	}
	// a translated function called for its effect (assert helpers, receiver updates)
	tu, recvE, err := c.ownCallee(call)
	if err != nil {
		return false, err
	}
	if tu != nil {
		if tu.hasErr {
			return false, c.errAt(s, "the error result of %s is discarded", tu.spec.Name)
		}
		callStr, err := c.ownCallString(call, tu, recvE)
		if err != nil {
			return false, err
		}
		n := len(tu.results)
		if tu.mutRecv {
			rv := c.lookupRecvOf(recvE)
			if rv == nil {
				return false, c.errAt(s, "%s mutates its receiver, which is not a variable here", tu.spec.Name)
			}
			if n == 0 {
				c.emit("%s ← %s", rv.lean, callStr)
			} else {
				t := c.fresh("r")
				pats := []string{t}
				for i := 0; i < n; i++ {
					pats = append(pats, "_")
				}
				c.emit("let (%s) ← %s", strings.Join(pats, ", "), callStr)
				c.emit("%s := %s", rv.lean, t)
			}
			return false, nil
		}
		if n == 0 {
			c.emit("%s", callStr)
		} else {
			c.emit("let _ ← %s", callStr)
		}
		return false, nil
	}
	// math/big: x.Mul(a, b), x.Mul(a, b).Quo(&x, c), …
	if handled, err := c.bigStmt(call); handled || err != nil {
		return false, err
	}
	return false, c.errAt(s, "unsupported call statement %s", exprString(call.Fun))
}

func (c *fnCtx) returnStmt(r *ast.ReturnStmt) error {
	u := c.u
	res := r.Results
	if len(res) == 0 {
		if len(u.results) == 0 && !u.hasErr {
			c.emitReturn(nil)
			return nil
		}
		// bare return with named results
		if u.hasErr {
			return c.errAt(r, "bare return in a function with an error result")
		}
		var vals []string
		for _, n := range u.named {
			lv := c.lookup(n)
			if n == "" || lv == nil {
				return c.errAt(r, "bare return without named results")
			}
			if c.unset[lv.lean] {
				return c.errAt(r, "named result %s may be returned unassigned (nil)", n)
			}
			vals = append(vals, lv.lean)
		}
		c.emitReturn(vals)
		return nil
	}
	// `return f(…)` forwarding all results of a translated call
	if len(res) == 1 && (len(u.results)+btoi(u.hasErr)) > 1 {
		call, ok := res[0].(*ast.CallExpr)
		if !ok {
			return c.errAt(r, "unsupported return shape")
		}
		tu, recvE, err := c.ownCallee(call)
		if err != nil {
			return err
		}
		if tu == nil || tu.hasErr != u.hasErr || len(tu.results) != len(u.results) {
			return c.errAt(r, "unsupported return shape")
		}
		for i := range tu.results {
			if !sameTy(tu.results[i], u.results[i]) {
				return c.errAt(r, "unsupported return shape")
			}
		}
		callStr, err := c.ownCallString(call, tu, recvE)
		if err != nil {
			return err
		}
		var pats []string
		if tu.mutRecv {
			rv := c.lookupRecvOf(recvE)
			if rv == nil {
				return c.errAt(r, "%s mutates its receiver, which is not a variable here", tu.spec.Name)
			}
			pats = append(pats, rv.lean+"_new")
		}
		var vals []string
		for range tu.results {
			t := c.fresh("t")
			pats = append(pats, t)
			vals = append(vals, t)
		}
		switch len(pats) {
		case 0:
			c.emit("%s", callStr)
		case 1:
			c.emit("let %s ← %s", pats[0], callStr)
		default:
			c.emit("let (%s) ← %s", strings.Join(pats, ", "), callStr)
		}
		if tu.mutRecv {
			rv := c.lookupRecvOf(recvE)
			c.emit("%s := %s_new", rv.lean, rv.lean)
		}
		c.emitReturn(vals)
		return nil
	}
	want := len(u.results) + btoi(u.hasErr)
	if len(res) != want {
		return c.errAt(r, "return with %d values, function has %d results", len(res), want)
	}
	if u.hasErr {
		ev, err := c.expr(res[len(res)-1])
		if err != nil {
			return err
		}
		if ev.t.K != kErr {
			return c.errAt(r, "last return value is not an error")
		}
		if ev.nonNil {
			// the other values of an error return are not observable in the model
			c.emit("R.err")
			return nil
		}
		if !ev.isNil {
			return c.errAt(r, "returned error %s is neither nil nor a known non-nil error", exprString(res[len(res)-1]))
		}
		res = res[:len(res)-1]
	}
	var vals []string
	returnedBig := map[string]bool{}
	for i, e := range res {
		v, err := c.expr(e)
		if err != nil {
			return err
		}
		want := u.results[i]
		if !(sameTy(v.t, want) || (v.lit && (want.K == kDur || want.K == kI64))) {
			return c.errAt(r, "return value %d has type %s, declared %s", i+1, v.t.goName(), want.goName())
		}
		if v.t.K == kStruct && v.structPtr {
			return c.errAt(r, "a struct pointer received as receiver or parameter is returned (aliasing is not modelled)")
		}
		if v.t.K == kBig && !v.fresh {
			// a local big.Int variable only ever holds values nobody else points to (`store` rejects aliases),
			// so handing it out at the end of the function is safe — once
			id, isId := e.(*ast.Ident)
			var lv *lvar
			if isId {
				lv = c.lookup(id.Name)
			}
			if lv == nil || lv.param || returnedBig[lv.lean] {
				return c.errAt(r, "a *big.Int that aliases a parameter or another result is returned (aliasing is not modelled)")
			}
			returnedBig[lv.lean] = true
		}
		vals = append(vals, v.s)
	}
	c.emitReturn(vals)
	return nil
}

func btoi(b bool) int {
	if b {
		return 1
	}
	return 0
}

func (c *fnCtx) ifStmt(s *ast.IfStmt) (bool, error) {
	c.push()
	defer c.pop()
	if s.Init != nil {
		// `if err := f(…); err != nil { return …, err }`
		if as, ok := s.Init.(*ast.AssignStmt); ok && s.Else == nil && isErrPropagation(as, &ast.IfStmt{Cond: s.Cond, Body: s.Body}) {
			return false, c.assign(as, true)
		}
		if _, err := c.stmt(s.Init, false); err != nil {
			return false, err
		}
	}
	cond, err := c.expr(s.Cond)
	if err != nil {
		return false, err
	}
	if cond.t.K != kBool {
		return false, c.errAt(s, "condition is not a bool")
	}
	before := copySet(c.unset)
	c.emit("if %s then", cond.s)
	c.ind++
	c.push()
	t1, err := c.block(s.Body.List)
	c.pop()
	c.ind--
	if err != nil {
		return false, err
	}
	after1 := c.unset
	if s.Else == nil {
		// unassigned-variable tracking: after the `if`, a variable is unset if it was unset before
		c.unset = before
		return false, nil
	}
	c.unset = copySet(before)
	c.emit("else")
	c.ind++
	c.push()
	var t2 bool
	switch e := s.Else.(type) {
	case *ast.BlockStmt:
		t2, err = c.block(e.List)
	case *ast.IfStmt:
		start := len(c.lines)
		t2, err = c.ifStmt(e)
		if err == nil && len(c.lines) == start {
			c.emit("pure ()")
		}
	default:
		err = c.errAt(s, "unsupported else")
	}
	c.pop()
	c.ind--
	if err != nil {
		return false, err
	}
	after2 := c.unset
	// a variable stays unset if some branch that falls through leaves it unset
	merged := map[string]bool{}
	if !t1 {
		for k := range after1 {
			merged[k] = true
		}
	}
	if !t2 {
		for k := range after2 {
			merged[k] = true
		}
	}
	c.unset = merged
	return t1 && t2, nil
}

func copySet(m map[string]bool) map[string]bool {
	o := make(map[string]bool, len(m))
	for k, v := range m {
		o[k] = v
	}
	return o
}
