package main

// Regression tests of the function translator on small synthetic packages: what must be rejected
// (aliasing, loops, reads of nil zero values, discarded errors) and what the accepted shapes turn into.

import (
	"os"
	"path/filepath"
	"strings"
	"testing"
)

const fnTestSrc = `package p

import (
	"math/big"

	sdkmath "cosmossdk.io/math"
	sdk "github.com/cosmos/cosmos-sdk/types"
)

type Pool struct {
	a sdkmath.Int
	b sdkmath.Int
}

func aliasBig(x sdkmath.Int) sdkmath.Int {
	u := x.BigInt()
	v := u
	v.Add(v, big.NewInt(1))
	return sdkmath.NewIntFromBigInt(u)
}

func aliasAddr(x sdkmath.Int) sdkmath.Int {
	var u big.Int
	v := &u
	v.Add(v, big.NewInt(1))
	return sdkmath.NewIntFromBigInt(&u)
}

func mutParam(x *big.Int) sdkmath.Int {
	x.Add(x, big.NewInt(1))
	return sdkmath.NewIntFromBigInt(x)
}

func (p *Pool) aliasStruct() sdkmath.Int {
	q := p
	q.a = q.a.Add(sdk.OneInt())
	return p.a
}

func (p *Pool) leak() *Pool {
	return p
}

func loop(x sdkmath.Int) sdkmath.Int {
	for i := 0; i < 3; i++ {
		x = x.Add(sdk.OneInt())
	}
	return x
}

func nilRead(c bool) sdkmath.Int {
	var r sdkmath.Int
	if c {
		r = sdk.OneInt()
	}
	return r
}

func okBranches(c bool) sdkmath.Int {
	var r sdkmath.Int
	if c {
		r = sdk.OneInt()
	} else {
		r = sdk.ZeroInt()
	}
	return r
}

func mayFail(x sdkmath.Int) (sdkmath.Int, error) {
	if x.IsNegative() {
		return sdkmath.Int{}, ErrBad
	}
	return x, nil
}

func dropsErr(x sdkmath.Int) sdkmath.Int {
	y, _ := mayFail(x)
	return y
}

func propagates(x sdkmath.Int) (sdkmath.Int, error) {
	y, err := mayFail(x)
	if err != nil {
		return sdkmath.Int{}, err
	}
	return y.Add(sdk.OneInt()), nil
}

func shortCircuit(a, b sdk.Dec) bool {
	return b.IsZero() || a.Quo(b).IsPositive()
}

func chain(a, b, c sdkmath.Int) sdkmath.Int {
	var r big.Int
	r.Mul(a.BigInt(), b.BigInt()).Quo(&r, c.BigInt())
	return sdkmath.NewIntFromBigInt(&r)
}

func shadow(x sdkmath.Int) sdkmath.Int {
	y := x
	if x.IsPositive() {
		y := y.Add(sdk.OneInt())
		x = y
	}
	return x.Add(y)
}
`

func fnTestModule(t *testing.T, names ...string) (string, map[string]string) {
	dir := t.TempDir()
	if err := os.MkdirAll(filepath.Join(dir, "x/p"), 0o755); err != nil {
		t.Fatal(err)
	}
	src := strings.Replace(fnTestSrc, "func aliasBig", "var ErrBad = errNew()\n\nfunc errNew() error { return nil }\n\nfunc aliasBig", 1)
	if err := os.WriteFile(filepath.Join(dir, "x/p/p.go"), []byte(src), 0o644); err != nil {
		t.Fatal(err)
	}
	var specs []fnSpec
	for _, n := range names {
		recv := ""
		if i := strings.Index(n, "."); i >= 0 {
			recv, n = n[:i], n[i+1:]
		}
		specs = append(specs, fnSpec{"x/p", recv, n})
	}
	softFails = nil
	out, _, err := emitFnModule(dir, fnModuleSpec{"T", "test", specs})
	if err != nil {
		t.Fatal(err)
	}
	fails := map[string]string{}
	for _, f := range softFails {
		parts := strings.SplitN(strings.TrimPrefix(f, "FnT "), ": ", 2)
		fails[parts[0]] = parts[1]
	}
	softFails = nil
	return out, fails
}

func TestFnRejects(t *testing.T) {
	want := map[string]string{
		"aliasBig":    "aliases another variable",
		"aliasAddr":   "aliases another variable",
		"mutParam":    "parameter (x) is mutated",
		"aliasStruct": "struct pointer is copied",
		"leak":        "struct pointer received",
		"loop":        "unsupported statement *ast.ForStmt",
		"nilRead":     "may be read before it is assigned",
		"dropsErr":    "error result of mayFail is discarded",
	}
	_, fails := fnTestModule(t, "aliasBig", "aliasAddr", "mutParam", "Pool.aliasStruct", "Pool.leak", "loop", "nilRead", "dropsErr")
	for fn, frag := range want {
		if !strings.Contains(fails[fn], frag) {
			t.Errorf("%s: want a rejection containing %q, got %q", fn, frag, fails[fn])
		}
	}
}

func TestFnAccepts(t *testing.T) {
	out, fails := fnTestModule(t, "okBranches", "propagates", "shortCircuit", "chain", "shadow")
	if len(fails) != 0 {
		t.Fatalf("unexpected failures: %v", fails)
	}
	for _, frag := range []string{
		"let t_1 ← mayFail x", // error propagation is the bind
		"(← (do if (Dec.isZero b) then return true else return ", // effect under || stays conditional
		"r := (a * b)\n  r ← Go.bigQuo r c",                      // chained big.Int calls are sequential assignments
		"let mut y_1 : Int := (y + 1)",                           // a shadowing variable gets a fresh Lean name
		"def okBranches_translated : Bool := true",
	} {
		if !strings.Contains(out, frag) {
			t.Errorf("generated text lacks %q\n%s", frag, out)
		}
	}
}
