package main

// C10 (evmutil backing): wiring facts the backing theorems rest on.
//   - app/app.go loadBlockedMaccAddrs: the module accounts that are NOT blocked (the evmutil module
//     account must not be among them: nobody can bank-send coins into it)
//   - app/app.go mAccPerms: the evmutil module account's permissions (it mints and burns pair coins)
//   - x/evmutil/keeper/invariants.go RegisterInvariants: the invariant routes really registered
// Tables only.

import (
	"fmt"
	"go/ast"
	"strings"
)

func init() { Register("C10Evmutil", emitC10) }

func emitC10(repo string) (string, any, error) {
	f, err := parseFile(repo, "app/app.go")
	if err != nil {
		return "", nil, err
	}
	// ---- unblocked module accounts
	fd, err := f.funcDecl("loadBlockedMaccAddrs")
	if err != nil {
		return "", nil, err
	}
	var unblocked []string
	found := false
	ast.Inspect(fd.Body, func(n ast.Node) bool {
		as, ok := n.(*ast.AssignStmt)
		if !ok || len(as.Lhs) != 1 || len(as.Rhs) != 1 {
			return true
		}
		if id, ok := as.Lhs[0].(*ast.Ident); !ok || id.Name != "allowedMaccs" {
			return true
		}
		cl, ok := as.Rhs[0].(*ast.CompositeLit)
		if !ok {
			return true
		}
		found = true
		for _, el := range cl.Elts {
			kv, ok := el.(*ast.KeyValueExpr)
			if !ok {
				err = fmt.Errorf("allowedMaccs: unexpected element %s", exprString(el))
				return false
			}
			if id, ok := kv.Value.(*ast.Ident); !ok || id.Name != "true" {
				continue
			}
			// app.accountKeeper.GetModuleAddress(<name>).String()
			name := ""
			ast.Inspect(kv.Key, func(m ast.Node) bool {
				if c, ok := m.(*ast.CallExpr); ok {
					if se, ok := c.Fun.(*ast.SelectorExpr); ok && se.Sel.Name == "GetModuleAddress" && len(c.Args) == 1 {
						name = exprString(c.Args[0])
					}
				}
				return true
			})
			if name == "" {
				err = fmt.Errorf("allowedMaccs: key shape not understood: %s", exprString(kv.Key))
				return false
			}
			unblocked = append(unblocked, name)
		}
		return false
	})
	if err != nil {
		return "", nil, err
	}
	if !found {
		return "", nil, fmt.Errorf("app/app.go loadBlockedMaccAddrs: no allowedMaccs literal")
	}
	// the rest of the function must still be "every module account is blocked unless allowed":
	// it has to start from app.ModuleAccountAddrs()
	if !strings.Contains(f.text(fd.Body), "app.ModuleAccountAddrs()") {
		return "", nil, fmt.Errorf("loadBlockedMaccAddrs no longer starts from app.ModuleAccountAddrs()")
	}

	// ---- permissions of the evmutil module account
	pe, err := f.topValue("mAccPerms")
	if err != nil {
		return "", nil, err
	}
	pcl, ok := pe.(*ast.CompositeLit)
	if !ok {
		return "", nil, fmt.Errorf("mAccPerms is not a literal")
	}
	var perms []string
	havePerms := false
	for _, el := range pcl.Elts {
		kv := el.(*ast.KeyValueExpr)
		if exprString(kv.Key) != "evmutiltypes.ModuleName" {
			continue
		}
		havePerms = true
		if vl, ok := kv.Value.(*ast.CompositeLit); ok {
			for _, p := range vl.Elts {
				perms = append(perms, exprString(p))
			}
		}
	}
	if !havePerms {
		return "", nil, fmt.Errorf("mAccPerms has no entry for evmutiltypes.ModuleName")
	}

	// ---- registered invariant routes
	fi, err := parseFile(repo, "x/evmutil/keeper/invariants.go")
	if err != nil {
		return "", nil, err
	}
	ri, err := fi.funcDecl("RegisterInvariants")
	if err != nil {
		return "", nil, err
	}
	var routes []string
	ast.Inspect(ri.Body, func(n ast.Node) bool {
		c, ok := n.(*ast.CallExpr)
		if !ok {
			return true
		}
		if se, ok := c.Fun.(*ast.SelectorExpr); ok && se.Sel.Name == "RegisterRoute" && len(c.Args) == 3 {
			if s, e := strLit(c.Args[1]); e == nil {
				routes = append(routes, s)
			}
		}
		return true
	})

	var sb strings.Builder
	sb.WriteString("namespace KV.Gen.C10\n\n")
	fmt.Fprintf(&sb, "/-- app/app.go `loadBlockedMaccAddrs`: module accounts exempt from the bank's blocked-address list -/\ndef unblockedModuleAccounts : List String := %s\n\n", leanStrList(unblocked))
	fmt.Fprintf(&sb, "/-- the evmutil module account, as named in app/app.go -/\ndef evmutilModuleAccount : String := %s\n\n", leanStr("evmutiltypes.ModuleName"))
	fmt.Fprintf(&sb, "/-- app/app.go `mAccPerms[evmutiltypes.ModuleName]` -/\ndef evmutilPerms : List String := %s\n\n", leanStrList(perms))
	fmt.Fprintf(&sb, "/-- x/evmutil/keeper/invariants.go `RegisterInvariants`: routes really registered -/\ndef registeredInvariants : List String := %s\n\n", leanStrList(routes))
	sb.WriteString("end KV.Gen.C10\n")
	facts := map[string]any{"unblocked": unblocked, "evmutilPerms": perms, "registeredInvariants": routes}
	return sb.String(), facts, nil
}
