package main

// fnexpr.go — expressions and calls of the Go → Lean function translator (see fn.go).
//
// Every translated expression is a self-delimiting Lean term (compound terms are parenthesised).  An
// operation that can panic, and every call of another translated function, is a nested action `(← …)`;
// Lean's `do` notation evaluates nested actions of a statement left to right before the statement itself,
// which matches Go because (a) all of a statement's operands are evaluated unconditionally — an effect under
// the right operand of `&&` / `||` is wrapped in its own `do` with an `if` — and (b) all panics are the same
// outcome.

import (
	"fmt"
	"go/ast"
	"go/token"
	"math/big"
	"strings"
)

type val struct {
	s      string
	t      Ty
	eff    bool // contains a nested action
	lit    bool // untyped integer constant: adapts to int64 / time.Duration
	fresh  bool // kBig: the value is not the cell of a variable (a copy / a new big.Int)
	nonNil bool // kErr: known non-nil
	isNil  bool // kErr: the literal nil
	// kStruct: the expression is a variable that holds a POINTER to the struct it received (copying it would alias)
	structPtr bool
	// kStruct: a pointer to a new struct (&T{…}, the result of a translated call): the variable it is stored in
	// is treated as a pointer from then on
	newPtr bool
}

func (c *fnCtx) expr(e ast.Expr) (val, error) {
	switch v := e.(type) {
	case *ast.ParenExpr:
		return c.expr(v.X)
	case *ast.BasicLit:
		if v.Kind != token.INT {
			return val{}, c.errAt(e, "unsupported literal %s", v.Value)
		}
		x, err := evalInt(v, nil)
		if err != nil {
			return val{}, c.errAt(e, "%v", err)
		}
		return val{s: leanInt(x), t: Ty{K: kI64}, lit: true}, nil
	case *ast.Ident:
		return c.ident(v)
	case *ast.UnaryExpr:
		return c.unary(v)
	case *ast.BinaryExpr:
		return c.binary(v)
	case *ast.SelectorExpr:
		return c.selector(v)
	case *ast.CallExpr:
		return c.call(v)
	case *ast.CompositeLit:
		return c.composite(v)
	}
	return val{}, c.errAt(e, "unsupported expression %s", exprString(e))
}

// composite: T{f: v, …} of a struct of the subset, every represented field given by key
func (c *fnCtx) composite(cl *ast.CompositeLit) (val, error) {
	if cl.Type == nil {
		return val{}, c.errAt(cl, "composite literal without a type")
	}
	t, err := c.m.resolveType(c.u.pkg, c.u.file, cl.Type)
	if err != nil || t.K != kStruct {
		return val{}, c.errAt(cl, "composite literal of a type outside the subset (%s)", exprString(cl.Type))
	}
	given := map[string]val{}
	eff := false
	for _, el := range cl.Elts {
		kv, ok := el.(*ast.KeyValueExpr)
		if !ok {
			return val{}, c.errAt(cl, "composite literal with positional fields")
		}
		key, ok := kv.Key.(*ast.Ident)
		if !ok {
			return val{}, c.errAt(cl, "unsupported composite literal key")
		}
		ft, ok := t.S.field(key.Name)
		if !ok {
			// a field that is not represented: its value must be a plain name (nothing to evaluate)
			switch kv.Value.(type) {
			case *ast.Ident, *ast.SelectorExpr, *ast.BasicLit:
				continue
			}
			return val{}, c.errAt(cl, "field %s is outside the subset and its value is not a plain name", key.Name)
		}
		v, err := c.expr(kv.Value)
		if err != nil {
			return val{}, err
		}
		if !sameTy(v.t, ft) && !(v.lit && isIntLike(ft.K)) {
			return val{}, c.errAt(cl, "field %s: value of type %s, declared %s", key.Name, v.t.goName(), ft.goName())
		}
		if v.t.K == kBig {
			return val{}, c.errAt(cl, "a *big.Int is stored in a struct field (aliasing is not modelled)")
		}
		eff = eff || v.eff
		given[key.Name] = v
	}
	var parts []string
	for _, f := range t.S.Fields {
		v, ok := given[f.Name]
		if !ok {
			if nilZero(f.T, false) {
				return val{}, c.errAt(cl, "field %s is left at its zero value, which is nil in Go", f.Name)
			}
			z, ok := zeroValue(f.T)
			if !ok {
				return val{}, c.errAt(cl, "field %s: no zero value", f.Name)
			}
			v = val{s: z}
		}
		parts = append(parts, leanIdent(f.Name)+" := "+v.s)
	}
	return val{s: "({ " + strings.Join(parts, ", ") + " } : " + t.S.Lean + ")", t: t, eff: eff, fresh: true}, nil
}

func leanInt(x *big.Int) string {
	if x.Sign() < 0 {
		return "(" + x.String() + ")"
	}
	return x.String()
}

func (c *fnCtx) ident(id *ast.Ident) (val, error) {
	if lv := c.lookup(id.Name); lv != nil {
		switch lv.t.K {
		case kSkip:
			return val{}, c.errAt(id, "use of %s, whose type is outside the subset", id.Name)
		case kErr:
			return val{t: lv.t, nonNil: lv.nonNil}, nil
		}
		if c.unset[lv.lean] {
			return val{}, c.errAt(id, "%s may be read before it is assigned (Go's zero value of its type is nil)", id.Name)
		}
		return val{s: lv.lean, t: lv.t, structPtr: lv.t.K == kStruct && lv.ptr}, nil
	}
	switch id.Name {
	case "true", "false":
		return val{s: id.Name, t: Ty{K: kBool}}, nil
	case "nil":
		return val{t: Ty{K: kErr}, isNil: true}, nil
	}
	return c.pkgValue(c.u.pkg, id.Name, id)
}

func (c *fnCtx) unary(u *ast.UnaryExpr) (val, error) {
	if u.Op == token.AND {
		if cl, ok := u.X.(*ast.CompositeLit); ok {
			v, err := c.composite(cl) // &T{…}: a pointer to a new value
			v.newPtr = true
			return v, err
		}
		// &x of a big.Int variable: the cell itself
		id, ok := u.X.(*ast.Ident)
		if !ok {
			return val{}, c.errAt(u, "unsupported address-of %s", exprString(u.X))
		}
		lv := c.lookup(id.Name)
		if lv == nil || lv.t.K != kBig {
			return val{}, c.errAt(u, "unsupported address-of %s", id.Name)
		}
		return val{s: lv.lean, t: lv.t}, nil
	}
	x, err := c.expr(u.X)
	if err != nil {
		return val{}, err
	}
	switch u.Op {
	case token.NOT:
		if x.t.K != kBool {
			return val{}, c.errAt(u, "! on a non-bool")
		}
		return val{s: "(!" + x.s + ")", t: x.t, eff: x.eff}, nil
	case token.SUB:
		if x.t.K != kI64 && x.t.K != kDur {
			return val{}, c.errAt(u, "unary - on %s", x.t.goName())
		}
		return val{s: "(-" + x.s + ")", t: x.t, eff: x.eff, lit: x.lit}, nil
	case token.ADD:
		return x, nil
	}
	return val{}, c.errAt(u, "unsupported unary operator %s", u.Op)
}

func isIntLike(k kind) bool { return k == kI64 || k == kDur }

func (c *fnCtx) binary(b *ast.BinaryExpr) (val, error) {
	x, err := c.expr(b.X)
	if err != nil {
		return val{}, err
	}
	y, err := c.expr(b.Y)
	if err != nil {
		return val{}, err
	}
	eff := x.eff || y.eff
	switch b.Op {
	case token.LAND, token.LOR:
		if x.t.K != kBool || y.t.K != kBool {
			return val{}, c.errAt(b, "%s on non-bool operands", b.Op)
		}
		if y.eff {
			// short-circuit: the effects of the right operand only happen when it is evaluated
			if b.Op == token.LOR {
				return val{s: "(← (do if " + x.s + " then return true else return " + y.s + "))", t: x.t, eff: true}, nil
			}
			return val{s: "(← (do if " + x.s + " then return " + y.s + " else return false))", t: x.t, eff: true}, nil
		}
		op := "&&"
		if b.Op == token.LOR {
			op = "||"
		}
		return val{s: "(" + x.s + " " + op + " " + y.s + ")", t: x.t, eff: eff}, nil
	case token.EQL, token.NEQ:
		if x.t.K == kBool && y.t.K == kBool {
			op := "=="
			if b.Op == token.NEQ {
				op = "!="
			}
			return val{s: "(" + x.s + " " + op + " " + y.s + ")", t: x.t, eff: eff}, nil
		}
		if !c.intOperands(x, y) {
			return val{}, c.errAt(b, "%s on %s and %s (only integers, durations and bools can be compared with an operator)", b.Op, x.t.goName(), y.t.goName())
		}
		s := "(decide (" + x.s + " = " + y.s + "))"
		if b.Op == token.NEQ {
			s = "(!" + s + ")"
		}
		return val{s: s, t: Ty{K: kBool}, eff: eff}, nil
	case token.LSS, token.LEQ, token.GTR, token.GEQ:
		if !c.intOperands(x, y) && !(x.t.K == kTime && y.t.K == kTime && false) {
			return val{}, c.errAt(b, "%s on %s and %s", b.Op, x.t.goName(), y.t.goName())
		}
		op := map[token.Token]string{token.LSS: "<", token.LEQ: "≤", token.GTR: ">", token.GEQ: "≥"}[b.Op]
		return val{s: "(decide (" + x.s + " " + op + " " + y.s + "))", t: Ty{K: kBool}, eff: eff}, nil
	case token.ADD, token.SUB, token.MUL, token.QUO, token.REM:
		if !c.intOperands(x, y) {
			return val{}, c.errAt(b, "%s on %s and %s", b.Op, x.t.goName(), y.t.goName())
		}
		t := x.t
		if x.lit || (y.t.K == kDur && !y.lit) {
			t = y.t
		}
		lit := x.lit && y.lit
		switch b.Op {
		case token.QUO:
			return val{s: "(← Go.i64Quo " + x.s + " " + y.s + ")", t: t, eff: true}, nil
		case token.REM:
			return val{s: "(← Go.i64Rem " + x.s + " " + y.s + ")", t: t, eff: true}, nil
		}
		return val{s: "(" + x.s + " " + b.Op.String() + " " + y.s + ")", t: t, eff: eff, lit: lit}, nil
	}
	return val{}, c.errAt(b, "unsupported operator %s", b.Op)
}

// intOperands: int64-like on both sides (an untyped constant adapts; Duration × int64 constant is usual Go)
func (c *fnCtx) intOperands(x, y val) bool {
	return isIntLike(x.t.K) && isIntLike(y.t.K)
}

func (c *fnCtx) importPath(id *ast.Ident) (string, bool) {
	if c.lookup(id.Name) != nil {
		return "", false
	}
	p, ok := c.u.pkg.imps[c.u.file][id.Name]
	return p, ok
}

func (c *fnCtx) selector(s *ast.SelectorExpr) (val, error) {
	if id, ok := s.X.(*ast.Ident); ok {
		if path, ok := c.importPath(id); ok {
			if dir, ok := kavaDir(path); ok {
				q, err := c.m.pkg(dir)
				if err != nil {
					return val{}, c.errAt(s, "%v", err)
				}
				return c.pkgValue(q, s.Sel.Name, s)
			}
			if v, ok := externalValues[path+"."+s.Sel.Name]; ok {
				return v, nil
			}
			return val{}, c.errAt(s, "unsupported package value %s", exprString(s))
		}
	}
	x, err := c.expr(s.X)
	if err != nil {
		return val{}, err
	}
	switch x.t.K {
	case kStruct:
		ft, ok := x.t.S.field(s.Sel.Name)
		if !ok {
			return val{}, c.errAt(s, "field %s of %s is outside the subset", s.Sel.Name, x.t.S.GoName)
		}
		return val{s: x.s + "." + leanIdent(s.Sel.Name), t: ft, eff: x.eff}, nil
	case kCoin:
		if s.Sel.Name == "Amount" {
			return val{s: x.s, t: Ty{K: kInt}, eff: x.eff}, nil
		}
	}
	return val{}, c.errAt(s, "unsupported selector %s on %s", s.Sel.Name, x.t.goName())
}

// pkgValue: a package-level constant or variable, inlined.  A variable is only accepted when nothing in its
// package assigns it.  Integers are evaluated here (big.Int.Exp, products of constants); anything else must
// be a panic-free constructor expression of the subset (sdk.ZeroInt(), sdk.MustNewDecFromStr("0.5"), …).
func (c *fnCtx) pkgValue(p *fnPkg, name string, at ast.Node) (val, error) {
	f, vs, i, tok := p.findValue(name)
	if vs == nil {
		return val{}, c.errAt(at, "unknown identifier %s", name)
	}
	if strings.HasPrefix(name, "Err") && tok == token.VAR {
		// the modules' registered sentinel errors (errorsmod.Register): non-nil by construction
		return val{t: Ty{K: kErr}, nonNil: true}, nil
	}
	if tok == token.VAR && p.assignedAnywhere(name) {
		return val{}, c.errAt(at, "package variable %s is assigned somewhere in its package", name)
	}
	if i >= len(vs.Values) {
		return val{}, c.errAt(at, "package value %s has no initialiser of its own (iota or grouped declaration)", name)
	}
	init := vs.Values[i]
	if x, err := c.m.constInt(p, f, init, 0); err == nil {
		t := Ty{K: kI64}
		lit := vs.Type == nil
		if vs.Type != nil {
			dt, err := c.m.resolveType(p, f, vs.Type)
			if err != nil || dt.K == kSkip {
				return val{}, c.errAt(at, "package value %s has a type outside the subset", name)
			}
			t = dt
		} else {
			t, lit = c.m.intInitKind(p, f, init)
		}
		return val{s: leanInt(x), t: t, lit: lit, fresh: true}, nil
	}
	// not an integer: translate the initialiser in the context of its own file
	sub := &fnCtx{m: c.m, u: &fnUnit{spec: fnSpec{Dir: p.dir, Name: name}, pkg: p, file: f}, used: map[string]bool{}, unset: map[string]bool{}}
	sub.push()
	v, err := sub.expr(init)
	if err != nil {
		return val{}, c.errAt(at, "package value %s: %v", name, err)
	}
	// an initialiser that can panic (sdk.OneDec().Quo(sdk.SmallestDec())) is inlined as it stands: Go evaluates it
	// once at program start (a panic there stops the binary); the translation re-evaluates it at the use
	v.fresh = true
	return v, nil
}

// constInt evaluates an integer constant expression, resolving identifiers of the same package recursively
func (m *fnModule) constInt(p *fnPkg, f *File, e ast.Expr, depth int) (*big.Int, error) {
	if depth > 8 {
		return nil, fmt.Errorf("constant nesting too deep")
	}
	env := map[string]*big.Int{
		"time.Nanosecond": big.NewInt(1), "time.Microsecond": big.NewInt(1000), "time.Millisecond": big.NewInt(1000000),
		"time.Second": big.NewInt(1000000000), "time.Minute": big.NewInt(60000000000), "time.Hour": big.NewInt(3600000000000),
	}
	var ferr error
	ast.Inspect(e, func(n ast.Node) bool {
		switch v := n.(type) {
		case *ast.SelectorExpr:
			return false // qualified names are only resolved through env
		case *ast.CallExpr:
			// do not treat the function name as a constant
			for _, a := range v.Args {
				ast.Inspect(a, func(k ast.Node) bool {
					if id, ok := k.(*ast.Ident); ok {
						m.constIdent(p, id.Name, env, depth)
					}
					return true
				})
			}
			return false
		case *ast.Ident:
			m.constIdent(p, v.Name, env, depth)
		}
		return true
	})
	if ferr != nil {
		return nil, ferr
	}
	_ = f
	return evalInt(e, env)
}

func (m *fnModule) constIdent(p *fnPkg, name string, env map[string]*big.Int, depth int) {
	if _, ok := env[name]; ok {
		return
	}
	f, vs, i, tok := p.findValue(name)
	if vs == nil || i >= len(vs.Values) {
		return
	}
	if tok == token.VAR && p.assignedAnywhere(name) {
		return
	}
	if x, err := m.constInt(p, f, vs.Values[i], depth+1); err == nil {
		env[name] = x
	}
}

// intInitKind: the Go type of an integer-valued initialiser without a declared type, from its outermost form
func (m *fnModule) intInitKind(p *fnPkg, f *File, e ast.Expr) (Ty, bool) {
	switch v := e.(type) {
	case *ast.ParenExpr:
		return m.intInitKind(p, f, v.X)
	case *ast.CallExpr:
		fn := exprString(v.Fun)
		if se, ok := v.Fun.(*ast.SelectorExpr); ok {
			if id, ok := se.X.(*ast.Ident); ok {
				switch p.imps[f][id.Name] + "." + se.Sel.Name {
				case pathMath + ".NewInt", pathSdk + ".NewInt", pathMath + ".NewIntFromUint64", pathSdk + ".NewIntFromUint64":
					return Ty{K: kInt}, false
				case pathBig + ".NewInt":
					return Ty{K: kBig}, false
				case pathTime + ".Duration":
					return Ty{K: kDur}, false
				}
			}
		}
		if strings.HasPrefix(fn, "new(big.Int)") {
			return Ty{K: kBig}, false
		}
		return Ty{K: kI64}, false
	case *ast.BinaryExpr:
		tx, lx := m.intInitKind(p, f, v.X)
		ty, ly := m.intInitKind(p, f, v.Y)
		if !lx {
			return tx, false
		}
		return ty, lx && ly
	case *ast.SelectorExpr:
		if id, ok := v.X.(*ast.Ident); ok && p.imps[f][id.Name] == pathTime {
			return Ty{K: kDur}, false
		}
	case *ast.Ident:
		if ff, vs, i, _ := p.findValue(v.Name); vs != nil && i < len(vs.Values) {
			if vs.Type != nil {
				if t, err := m.resolveType(p, ff, vs.Type); err == nil && t.K != kSkip {
					return t, false
				}
			}
			return m.intInitKind(p, ff, vs.Values[i])
		}
	}
	return Ty{K: kI64}, true
}

// ---------------------------------------------------------------------------------------------------------
// calls

func (c *fnCtx) call(call *ast.CallExpr) (val, error) {
	if call.Ellipsis.IsValid() {
		return val{}, c.errAt(call, "variadic call")
	}
	// conversions and builtins
	if id, ok := call.Fun.(*ast.Ident); ok && c.lookup(id.Name) == nil {
		switch id.Name {
		case "int64", "uint64", "int", "uint", "int32", "uint32":
			if len(call.Args) != 1 {
				return val{}, c.errAt(call, "bad conversion")
			}
			x, err := c.expr(call.Args[0])
			if err != nil {
				return val{}, err
			}
			if !isIntLike(x.t.K) {
				return val{}, c.errAt(call, "conversion of %s to %s", x.t.goName(), id.Name)
			}
			return val{s: x.s, t: Ty{K: kI64}, eff: x.eff}, nil
		case "new":
			if len(call.Args) == 1 {
				if t, err := c.m.resolveType(c.u.pkg, c.u.file, call.Args[0]); err == nil && t.K == kBig {
					return val{s: "0", t: t, fresh: true}, nil
				}
			}
			return val{}, c.errAt(call, "unsupported new(%s)", exprString(call.Args[0]))
		case "panic":
			return val{}, c.errAt(call, "panic in expression position")
		}
	}
	if se, ok := call.Fun.(*ast.SelectorExpr); ok {
		if id, ok := se.X.(*ast.Ident); ok {
			if path, ok := c.importPath(id); ok {
				if path == pathTime && se.Sel.Name == "Duration" && len(call.Args) == 1 {
					x, err := c.expr(call.Args[0])
					if err != nil {
						return val{}, err
					}
					if !isIntLike(x.t.K) {
						return val{}, c.errAt(call, "conversion of %s to time.Duration", x.t.goName())
					}
					return val{s: x.s, t: Ty{K: kDur}, eff: x.eff}, nil
				}
				if _, isKava := kavaDir(path); !isKava {
					return c.externalCall(call, path, se.Sel.Name)
				}
			}
		}
	}
	// a function of the repository
	tu, recvE, err := c.ownCallee(call)
	if err != nil {
		return val{}, err
	}
	if tu != nil {
		if tu.mutRecv {
			return val{}, c.errAt(call, "%s mutates its receiver: only supported as a statement or the right-hand side of an assignment", tu.spec.Name)
		}
		if tu.hasErr {
			return val{}, c.errAt(call, "%s returns an error: only supported as `…, err := f(…)` followed by `if err != nil { return …, err }`", tu.spec.Name)
		}
		if len(tu.results) != 1 {
			return val{}, c.errAt(call, "%s has %d results, used as a single value", tu.spec.Name, len(tu.results))
		}
		s, err := c.ownCallString(call, tu, recvE)
		if err != nil {
			return val{}, err
		}
		return val{s: "(← " + s + ")", t: tu.results[0], eff: true, fresh: true, newPtr: tu.results[0].K == kStruct}, nil
	}
	// a method of a value of the subset
	se, ok := call.Fun.(*ast.SelectorExpr)
	if !ok {
		return val{}, c.errAt(call, "unsupported call %s", exprString(call.Fun))
	}
	recv, err := c.expr(se.X)
	if err != nil {
		return val{}, err
	}
	return c.methodCall(call, recv, se.Sel.Name)
}

// args translates call arguments against the expected kinds
func (c *fnCtx) args(call *ast.CallExpr, what string, kinds []kind) ([]val, error) {
	if len(call.Args) != len(kinds) {
		return nil, c.errAt(call, "%s: %d arguments, the translator knows it with %d", what, len(call.Args), len(kinds))
	}
	out := make([]val, len(kinds))
	for i, a := range call.Args {
		v, err := c.expr(a)
		if err != nil {
			return nil, err
		}
		if v.t.K != kinds[i] && !(v.lit && isIntLike(kinds[i])) {
			return nil, c.errAt(call, "%s: argument %d has type %s, expected %s", what, i+1, v.t.goName(), Ty{K: kinds[i]}.goName())
		}
		out[i] = v
	}
	return out, nil
}

func subst(tmpl string, recv string, args []val) string {
	s := strings.ReplaceAll(tmpl, "$0", recv)
	for i, a := range args {
		s = strings.ReplaceAll(s, fmt.Sprintf("$%d", i+1), a.s)
	}
	return s
}

func (c *fnCtx) applyOp(call *ast.CallExpr, what string, op opSpec, recv val) (val, error) {
	as, err := c.args(call, what, op.args)
	if err != nil {
		return val{}, err
	}
	eff := recv.eff || op.eff
	for _, a := range as {
		eff = eff || a.eff
	}
	s := subst(op.tmpl, recv.s, as)
	if op.eff {
		s = "(← " + s + ")"
	}
	return val{s: s, t: Ty{K: op.res}, eff: eff, fresh: true}, nil
}

func (c *fnCtx) methodCall(call *ast.CallExpr, recv val, name string) (val, error) {
	if recv.t.K == kBig {
		// non-mutating big.Int methods on any value; value-producing ones only on a fresh receiver
		if op, ok := bigQueries[name]; ok {
			return c.applyOp(call, "big.Int."+name, op, recv)
		}
		if op, ok := bigOps[name]; ok {
			if !recv.fresh {
				return val{}, c.errAt(call, "big.Int.%s on a variable in expression position (it mutates the variable: write it as a statement)", name)
			}
			return c.applyOp(call, "big.Int."+name, op, recv)
		}
		return val{}, c.errAt(call, "unsupported method big.Int.%s", name)
	}
	tbl, ok := methodTable[recv.t.K]
	if !ok {
		return val{}, c.errAt(call, "unsupported method %s on %s", name, recv.t.goName())
	}
	op, ok := tbl[name]
	if !ok {
		return val{}, c.errAt(call, "unsupported method %s.%s", recv.t.goName(), name)
	}
	return c.applyOp(call, recv.t.goName()+"."+name, op, recv)
}

func (c *fnCtx) externalCall(call *ast.CallExpr, path, name string) (val, error) {
	key := path + "." + name
	if op, ok := externalFuncs[key]; ok {
		return c.applyOp(call, key, op, val{})
	}
	switch key {
	case pathSdk + ".NewCoin":
		// the denomination is not modelled
		if len(call.Args) != 2 {
			return val{}, c.errAt(call, "bad NewCoin")
		}
		a, err := c.expr(call.Args[1])
		if err != nil {
			return val{}, err
		}
		if a.t.K != kInt {
			return val{}, c.errAt(call, "NewCoin amount has type %s", a.t.goName())
		}
		return val{s: "(← Go.newCoin " + a.s + ")", t: Ty{K: kCoin}, eff: true}, nil
	case pathSdk + ".NewDecWithPrec", pathMath + ".LegacyNewDecWithPrec":
		if len(call.Args) == 2 {
			i, err1 := c.m.constInt(c.u.pkg, c.u.file, call.Args[0], 0)
			p, err2 := c.m.constInt(c.u.pkg, c.u.file, call.Args[1], 0)
			if err1 == nil && err2 == nil && p.IsInt64() && p.Int64() >= 0 && p.Int64() <= 18 {
				m := new(big.Int).Exp(big.NewInt(10), big.NewInt(18-p.Int64()), nil)
				return val{s: "(⟨" + new(big.Int).Mul(i, m).String() + "⟩ : Dec)", t: Ty{K: kDec}}, nil
			}
		}
		return val{}, c.errAt(call, "NewDecWithPrec with non-constant arguments")
	case pathSdk + ".MustNewDecFromStr", pathMath + ".LegacyMustNewDecFromStr":
		if len(call.Args) == 1 {
			if s, err := strLit(call.Args[0]); err == nil {
				if m, ok := decFromStr(s); ok {
					return val{s: "(⟨" + m.String() + "⟩ : Dec)", t: Ty{K: kDec}}, nil
				}
			}
		}
		return val{}, c.errAt(call, "MustNewDecFromStr of something other than a valid literal")
	case pathSdk + ".NewIntFromBigIntMut", pathMath + ".NewIntFromBigIntMut":
		// takes ownership of the big.Int: only sound for a value nobody else points to
		as, err := c.args(call, key, []kind{kBig})
		if err != nil {
			return val{}, err
		}
		if !as[0].fresh {
			return val{}, c.errAt(call, "NewIntFromBigIntMut of a big.Int variable (the Int would alias it)")
		}
		return val{s: as[0].s, t: Ty{K: kInt}, eff: as[0].eff}, nil
	case "fmt.Errorf", "errors.New":
		return val{t: Ty{K: kErr}, nonNil: true}, nil
	case "cosmossdk.io/errors.Wrap", "cosmossdk.io/errors.Wrapf", "github.com/cosmos/cosmos-sdk/types/errors.Wrap", "github.com/cosmos/cosmos-sdk/types/errors.Wrapf":
		// Wrap(nil, …) is nil: the wrapped error must be one of the registered Err… sentinels
		if len(call.Args) >= 1 {
			n := exprString(call.Args[0])
			if i := strings.LastIndex(n, "."); i >= 0 {
				n = n[i+1:]
			}
			if strings.HasPrefix(n, "Err") {
				return val{t: Ty{K: kErr}, nonNil: true}, nil
			}
		}
		return val{}, c.errAt(call, "Wrap of something other than an Err… sentinel")
	}
	return val{}, c.errAt(call, "unsupported function %s", key)
}

// decFromStr: the mantissa LegacyNewDecFromStr gives a plain decimal literal (at most 18 decimals)
func decFromStr(s string) (*big.Int, bool) {
	neg := false
	if strings.HasPrefix(s, "-") {
		neg, s = true, s[1:]
	}
	if s == "" {
		return nil, false
	}
	parts := strings.Split(s, ".")
	if len(parts) > 2 || parts[0] == "" {
		return nil, false
	}
	frac := ""
	if len(parts) == 2 {
		frac = parts[1]
		if frac == "" || len(frac) > 18 {
			return nil, false
		}
	}
	for _, ch := range parts[0] + frac {
		if ch < '0' || ch > '9' {
			return nil, false
		}
	}
	m, ok := new(big.Int).SetString(parts[0]+frac+strings.Repeat("0", 18-len(frac)), 10)
	if !ok {
		return nil, false
	}
	if neg {
		m.Neg(m)
	}
	return m, true
}

// ownCallee: is this a call of a function/method declared in the repository?  Then its unit (translated
// first, so that it precedes the caller in the generated file) and the receiver expression.
func (c *fnCtx) ownCallee(call *ast.CallExpr) (*fnUnit, ast.Expr, error) {
	var spec fnSpec
	var recvE ast.Expr
	switch f := call.Fun.(type) {
	case *ast.Ident:
		if c.lookup(f.Name) != nil {
			return nil, nil, nil
		}
		if _, fd := c.u.pkg.findFunc("", f.Name); fd == nil {
			return nil, nil, nil
		}
		spec = fnSpec{c.u.pkg.dir, "", f.Name}
	case *ast.SelectorExpr:
		id, ok := f.X.(*ast.Ident)
		if !ok {
			return nil, nil, nil
		}
		if path, ok := c.importPath(id); ok {
			dir, isKava := kavaDir(path)
			if !isKava {
				return nil, nil, nil
			}
			q, err := c.m.pkg(dir)
			if err != nil {
				return nil, nil, c.errAt(call, "%v", err)
			}
			if _, fd := q.findFunc("", f.Sel.Name); fd == nil {
				return nil, nil, c.errAt(call, "no function %s in %s", f.Sel.Name, dir)
			}
			spec = fnSpec{dir, "", f.Sel.Name}
			break
		}
		lv := c.lookup(id.Name)
		if lv == nil {
			return nil, nil, nil
		}
		// a method of the enclosing function's own receiver type (Keeper, BasePool, …) or of a struct of the subset
		dir, tname := "", ""
		if lv.recv {
			dir, tname = c.u.spec.Dir, c.u.spec.Recv
		} else if lv.t.K == kStruct {
			dir, tname = lv.t.S.Dir, lv.t.S.GoName
		} else {
			return nil, nil, nil
		}
		q, err := c.m.pkg(dir)
		if err != nil {
			return nil, nil, c.errAt(call, "%v", err)
		}
		if _, fd := q.findFunc(tname, f.Sel.Name); fd == nil {
			if lv.t.K == kSkip {
				return nil, nil, c.errAt(call, "call of %s.%s, which is not a method declared in %s (embedded or external)", id.Name, f.Sel.Name, dir)
			}
			return nil, nil, nil
		}
		spec = fnSpec{dir, tname, f.Sel.Name}
		recvE = f.X
	default:
		return nil, nil, nil
	}
	tu, err := c.m.unit(spec)
	if err != nil {
		return nil, nil, c.errAt(call, "%v", err)
	}
	if err := c.m.require(tu); err != nil {
		return nil, nil, c.errAt(call, "calls %s, which is untranslatable: %v", spec.Name, err)
	}
	return tu, recvE, nil
}

// hasRecvParam: the Lean definition takes the receiver as its first argument
func (u *fnUnit) hasRecvParam() bool { return u.recvName != "" && u.recvTy.K == kStruct }

func (c *fnCtx) ownCallString(call *ast.CallExpr, tu *fnUnit, recvE ast.Expr) (string, error) {
	if call.Ellipsis.IsValid() {
		return "", c.errAt(call, "variadic call")
	}
	parts := []string{tu.lean}
	if tu.hasRecvParam() {
		if recvE == nil {
			return "", c.errAt(call, "method %s called without a receiver variable", tu.spec.Name)
		}
		r, err := c.expr(recvE)
		if err != nil {
			return "", err
		}
		if !sameTy(r.t, tu.recvTy) {
			return "", c.errAt(call, "receiver of %s has type %s", tu.spec.Name, r.t.goName())
		}
		parts = append(parts, r.s)
	}
	if len(call.Args) != len(tu.params) {
		return "", c.errAt(call, "%s: %d arguments for %d parameters", tu.spec.Name, len(call.Args), len(tu.params))
	}
	for i, p := range tu.params {
		a := call.Args[i]
		if p.T.K == kSkip {
			// dropped parameter: the argument must be a plain name (no evaluation to lose)
			switch a.(type) {
			case *ast.Ident, *ast.SelectorExpr, *ast.BasicLit:
				continue
			}
			return "", c.errAt(call, "%s: argument %d (%s) of an untranslated parameter type is not a plain name", tu.spec.Name, i+1, exprString(a))
		}
		v, err := c.expr(a)
		if err != nil {
			return "", err
		}
		if !sameTy(v.t, p.T) && !(v.lit && isIntLike(p.T.K)) {
			return "", c.errAt(call, "%s: argument %d has type %s, parameter %s is %s", tu.spec.Name, i+1, v.t.goName(), p.Name, p.T.goName())
		}
		parts = append(parts, v.s)
	}
	return strings.Join(parts, " "), nil
}

// ---------------------------------------------------------------------------------------------------------
// math/big statements: x.Mul(a, b)   x.Mul(a, b).Quo(&x, c)   x.QuoRem(a, b, &r)

func (c *fnCtx) bigStmt(call *ast.CallExpr) (bool, error) {
	cell, handled, err := c.bigApply(call)
	_ = cell
	return handled, err
}

func (c *fnCtx) bigCell(e ast.Expr) (*lvar, error) {
	if u, ok := e.(*ast.UnaryExpr); ok && u.Op == token.AND {
		e = u.X
	}
	id, ok := e.(*ast.Ident)
	if !ok {
		return nil, nil
	}
	lv := c.lookup(id.Name)
	if lv == nil || lv.t.K != kBig {
		return nil, nil
	}
	if lv.param {
		return nil, c.errAt(e, "a *big.Int parameter (%s) is mutated", id.Name)
	}
	return lv, nil
}

func (c *fnCtx) bigApply(call *ast.CallExpr) (*lvar, bool, error) {
	se, ok := call.Fun.(*ast.SelectorExpr)
	if !ok {
		return nil, false, nil
	}
	var cell *lvar
	switch r := se.X.(type) {
	case *ast.CallExpr:
		inner, handled, err := c.bigApply(r)
		if err != nil || !handled {
			return nil, handled, err
		}
		cell = inner
	default:
		lv, err := c.bigCell(se.X)
		if err != nil {
			return nil, false, err
		}
		if lv == nil {
			return nil, false, nil
		}
		cell = lv
	}
	name := se.Sel.Name
	if name == "QuoRem" {
		if len(call.Args) != 3 {
			return nil, false, c.errAt(call, "bad QuoRem")
		}
		as, err := c.args(&ast.CallExpr{Fun: call.Fun, Lparen: call.Lparen, Args: call.Args[:2]}, "big.Int.QuoRem", []kind{kBig, kBig})
		if err != nil {
			return nil, false, err
		}
		rem, err := c.bigCell(call.Args[2])
		if err != nil {
			return nil, false, err
		}
		if rem == nil || rem == cell {
			return nil, false, c.errAt(call, "unsupported remainder target of QuoRem")
		}
		q, r := c.fresh("q"), c.fresh("r")
		c.emit("let (%s, %s) ← Go.bigQuoRem %s %s", q, r, as[0].s, as[1].s)
		c.emit("%s := %s", cell.lean, q)
		c.emit("%s := %s", rem.lean, r)
		delete(c.unset, cell.lean)
		delete(c.unset, rem.lean)
		return cell, true, nil
	}
	op, ok := bigOps[name]
	if !ok {
		return nil, false, c.errAt(call, "unsupported statement big.Int.%s", name)
	}
	as, err := c.args(call, "big.Int."+name, op.args)
	if err != nil {
		return nil, false, err
	}
	s := subst(op.tmpl, cell.lean, as)
	if op.eff {
		c.emit("%s ← %s", cell.lean, s)
	} else {
		c.emit("%s := %s", cell.lean, s)
	}
	delete(c.unset, cell.lean)
	return cell, true, nil
}
