package main

// C04/C05 tables (x/cdp): gate comparison shapes, which keeper functions apply the price-feed gate, which
// functions write the ratio index, the rounding of the per-deposit debt share. Tables and facts only.

import (
	"fmt"
	"go/ast"
	"sort"
	"strings"
)

func init() { Register("CdpFacts", emitCdpFacts) }

// gateMethod finds, in function fn, the `if x.<Method>(y) {` whose receiver and argument are the given
// identifiers and returns the method name (e.g. "LT", "GTE").
func gateMethod(f *File, fn, recv, arg string) (string, error) {
	fd, err := f.funcDecl(fn)
	if err != nil {
		return "", err
	}
	found := ""
	ast.Inspect(fd.Body, func(n ast.Node) bool {
		is, ok := n.(*ast.IfStmt)
		if !ok {
			return true
		}
		call, ok := is.Cond.(*ast.CallExpr)
		if !ok || len(call.Args) != 1 {
			return true
		}
		sel, ok := call.Fun.(*ast.SelectorExpr)
		if !ok {
			return true
		}
		r, ok1 := sel.X.(*ast.Ident)
		a, ok2 := call.Args[0].(*ast.Ident)
		if ok1 && ok2 && r.Name == recv && a.Name == arg {
			if found != "" {
				found = found + "+" + sel.Sel.Name
			} else {
				found = sel.Sel.Name
			}
		}
		return true
	})
	if found == "" {
		return "", fmt.Errorf("%s %s: no `if %s.<cmp>(%s)` gate", f.Path, fn, recv, arg)
	}
	return found, nil
}

// callers lists the functions of the files that contain a call `<anything>.<method>(…)` / `<method>(…)`.
func callers(files []*File, methods ...string) []string {
	want := map[string]bool{}
	for _, m := range methods {
		want[m] = true
	}
	set := map[string]bool{}
	for _, f := range files {
		for _, d := range f.F.Decls {
			fd, ok := d.(*ast.FuncDecl)
			if !ok || fd.Body == nil {
				continue
			}
			ast.Inspect(fd.Body, func(n ast.Node) bool {
				call, ok := n.(*ast.CallExpr)
				if !ok {
					return true
				}
				switch fun := call.Fun.(type) {
				case *ast.SelectorExpr:
					if want[fun.Sel.Name] {
						set[fd.Name.Name] = true
					}
				case *ast.Ident:
					if want[fun.Name] {
						set[fd.Name.Name] = true
					}
				}
				return true
			})
		}
	}
	var out []string
	for k := range set {
		out = append(out, k)
	}
	sort.Strings(out)
	return out
}

func emitCdpFacts(repo string) (string, any, error) {
	facts := map[string]string{}
	var sb strings.Builder
	sb.WriteString("namespace KV.Gen\n\n")
	cdpGo, err := parseFile(repo, "x/cdp/keeper/cdp.go")
	if err != nil {
		return "", nil, err
	}
	depGo, err := parseFile(repo, "x/cdp/keeper/deposit.go")
	if err != nil {
		return "", nil, err
	}
	seizeGo, err := parseFile(repo, "x/cdp/keeper/seize.go")
	if err != nil {
		return "", nil, err
	}
	gates := []struct {
		lean, doc string
		f         *File
		fn        string
	}{
		{"cdpUserGateRefuses", "ValidateCollateralizationRatio refuses when `collateralizationRatio.<this>(liquidationRatio)`", cdpGo, "ValidateCollateralizationRatio"},
		{"cdpWithdrawGateRefuses", "WithdrawCollateral refuses when `collateralizationRatio.<this>(liquidationRatio)`", depGo, "WithdrawCollateral"},
		{"cdpKeeperGateRefuses", "ValidateLiquidation refuses when `collateralizationRatio.<this>(liquidationRatio)`", seizeGo, "ValidateLiquidation"},
	}
	for _, g := range gates {
		m, err := gateMethod(g.f, g.fn, "collateralizationRatio", "liquidationRatio")
		if err != nil {
			return "", nil, err
		}
		fmt.Fprintf(&sb, "/-- %s: %s -/\ndef %s : String := %s\n\n", g.f.Path, g.doc, g.lean, leanStr(m))
		facts[g.lean] = m
	}
	files, err := parseDir(repo, "x/cdp/keeper")
	if err != nil {
		return "", nil, err
	}
	var core []*File
	for _, f := range files {
		b := f.Path[strings.LastIndex(f.Path, "/")+1:]
		switch b {
		case "cdp.go", "deposit.go", "draw.go", "interest.go", "seize.go", "auctions.go", "keeper.go":
			core = append(core, f)
		}
	}
	lists := []struct {
		lean, doc string
		methods   []string
	}{
		{"cdpFeedGateCallers", "functions that call `ValidateCollateral` (the price-feed status gate)", []string{"ValidateCollateral"}},
		{"cdpRatioIndexHelperCallers", "functions that update the ratio index through the helper path", []string{"UpdateCdpAndCollateralRatioIndex", "SetCdpAndCollateralRatioIndex", "DeleteCdpAndCollateralRatioIndex", "RemoveCdpCollateralRatioIndex", "IndexCdpByCollateralRatio"}},
		{"cdpBulkRatioCallers", "functions that compute the index key with the hand-rolled `calculateCollateralRatio`", []string{"calculateCollateralRatio"}},
		{"cdpSyncCallers", "functions that call `SynchronizeInterest` before touching a CDP", []string{"SynchronizeInterest"}},
	}
	for _, l := range lists {
		cs := callers(core, l.methods...)
		fmt.Fprintf(&sb, "/-- x/cdp/keeper: %s -/\ndef %s : List String := %s\n\n", l.doc, l.lean, leanStrList(cs))
		facts[l.lean] = strings.Join(cs, ",")
	}
	// rounding of the per-deposit share in AuctionCollateral and whether a remainder is tracked
	aucGo, err := parseFile(repo, "x/cdp/keeper/auctions.go")
	if err != nil {
		return "", nil, err
	}
	fd, err := aucGo.funcDecl("AuctionCollateral")
	if err != nil {
		return "", nil, err
	}
	round := ""
	assigns := 0
	ast.Inspect(fd.Body, func(n ast.Node) bool {
		switch x := n.(type) {
		case *ast.SelectorExpr:
			if strings.HasPrefix(x.Sel.Name, "Round") || strings.HasPrefix(x.Sel.Name, "Truncate") || x.Sel.Name == "Ceil" {
				round += x.Sel.Name
			}
		case *ast.AssignStmt:
			assigns++
		}
		return true
	})
	if round == "" {
		return "", nil, fmt.Errorf("AuctionCollateral: no rounding call found")
	}
	fmt.Fprintf(&sb, "/-- x/cdp/keeper/auctions.go AuctionCollateral: rounding applied to each deposit's share of the debt -/\ndef cdpDebtShareRounding : String := %s\n\n", leanStr(round))
	fmt.Fprintf(&sb, "/-- x/cdp/keeper/auctions.go AuctionCollateral: number of assignment statements in the body (3 = auction size, total, share; more = the shares are adjusted) -/\ndef cdpAuctionCollateralAssignments : Nat := %d\n\n", assigns)
	facts["cdpDebtShareRounding"] = round
	facts["cdpAuctionCollateralAssignments"] = fmt.Sprint(assigns)
	// LiquidateCdps: comparison applied to `liquidationRatio` inside the function (the re-check of each
	// selected CDP with the value ratio); "" = the index scan alone decides
	{
		lf, err := seizeGo.funcDecl("LiquidateCdps")
		if err != nil {
			return "", nil, err
		}
		cmp := ""
		ast.Inspect(lf.Body, func(n ast.Node) bool {
			call, ok := n.(*ast.CallExpr)
			if !ok || len(call.Args) != 1 {
				return true
			}
			sel, ok := call.Fun.(*ast.SelectorExpr)
			if !ok {
				return true
			}
			a, ok := call.Args[0].(*ast.Ident)
			if ok && a.Name == "liquidationRatio" {
				switch sel.Sel.Name {
				case "LT", "LTE", "GT", "GTE":
					cmp += sel.Sel.Name
				}
			}
			return true
		})
		fmt.Fprintf(&sb, "/-- x/cdp/keeper/seize.go LiquidateCdps: a selected CDP is skipped when `valueRatio.<this>(liquidationRatio)` (empty = no re-check) -/\ndef cdpBlockRecheckSkips : String := %s\n\n", leanStr(cmp))
		facts["cdpBlockRecheckSkips"] = cmp
	}
	// dump constant
	e, err := aucGo.topValue("dump")
	if err != nil {
		return "", nil, err
	}
	v, err := evalInt(e, nil)
	if err != nil {
		return "", nil, err
	}
	fmt.Fprintf(&sb, "/-- x/cdp/keeper/auctions.go: `dump` -/\ndef cdpDump : Int := %s\n\n", v.String())
	facts["cdpDump"] = v.String()
	sb.WriteString("end KV.Gen\n")
	return sb.String(), facts, nil
}
