package main

// C15 ante-gating facts (tables only, never control flow):
//   * app/ante/ante.go      newCosmosAnteHandler: the decorator chain as (condition, constructor) pairs,
//                           the argument list of NewAuthzLimiterDecorator as proto type URLs;
//                           newEthAnteHandler: the decorator chain;
//                           NewAnteHandler: the `len(opts) > N` bound, the `len(opts) == N` routing length,
//                           the extension-option switch (url, handler constructor, isEIP712), that the
//                           default case returns an error, and the fall-through handler;
//   * app/ante/vesting.go   the disabledMsgTypeUrls literal as proto type URLs;
//   * app/ante/authz.go     the flag the decorator passes at top level, the flag of the recursive call,
//                           the case order of the switch in checkForDisabledMsg (with the two authz URLs);
//   * app/ante/authorized.go the guard of AuthenticatedMempoolDecorator as (atom, polarity) conjuncts;
//   * app/app.go            the fetcher list appended under `options.MempoolEnableAuth`, and that the
//                           ExtensionOptionChecker handed to the ante handler is nil;
//   * ethermint app/ante    the message type asserted by RejectMessagesDecorator and by
//                           EthSigVerificationDecorator (dependency source, located with `go list`).
//
// A Go expression `sdk.MsgTypeURL(&alias.T{})` is resolved to "/" + the proto name registered for T in the
// *.pb.go files of the imported package (`proto.RegisterType((*T)(nil), "full.Name")`).

import (
	"fmt"
	"go/ast"
	"go/parser"
	"go/token"
	"os"
	"os/exec"
	"path/filepath"
	"regexp"
	"strconv"
	"strings"
)

func init() { Register("C15Ante", emitC15Ante) }

type c15Ctx struct {
	repo    string
	dirs    map[string]string            // import path -> directory
	protoNm map[string]map[string]string // import path -> Go type -> proto full name
}

func c15Imports(f *File) map[string]string {
	imports := map[string]string{}
	for _, im := range f.F.Imports {
		p, err := strconv.Unquote(im.Path.Value)
		if err != nil {
			continue
		}
		alias := ""
		if im.Name != nil {
			alias = im.Name.Name
		} else {
			parts := strings.Split(p, "/")
			alias = parts[len(parts)-1]
		}
		imports[alias] = p
	}
	return imports
}

func (c *c15Ctx) pkgDir(importPath string) (string, error) {
	if d, ok := c.dirs[importPath]; ok {
		return d, nil
	}
	cmd := exec.Command("go", "list", "-f", "{{.Dir}}", importPath)
	cmd.Dir = c.repo
	cmd.Env = append(os.Environ(), "GOFLAGS=-mod=mod", "GOPROXY=off", "GOSUMDB=off", "GOTOOLCHAIN=local")
	out, err := cmd.Output()
	if err != nil {
		return "", fmt.Errorf("go list %s: %v", importPath, err)
	}
	d := strings.TrimSpace(string(out))
	if d == "" {
		return "", fmt.Errorf("go list %s: empty directory", importPath)
	}
	c.dirs[importPath] = d
	return d, nil
}

var c15RegRe = regexp.MustCompile(`proto\.RegisterType\(\(\*(\w+)\)\(nil\), "([^"]+)"\)`)

func (c *c15Ctx) protoName(importPath, goType string) (string, error) {
	if m, ok := c.protoNm[importPath]; ok {
		if n, ok := m[goType]; ok {
			return n, nil
		}
		return "", fmt.Errorf("%s: no proto registration for type %s", importPath, goType)
	}
	dir, err := c.pkgDir(importPath)
	if err != nil {
		return "", err
	}
	files, _ := filepath.Glob(filepath.Join(dir, "*.pb.go"))
	m := map[string]string{}
	for _, p := range files {
		src, err := os.ReadFile(p)
		if err != nil {
			return "", err
		}
		for _, g := range c15RegRe.FindAllStringSubmatch(string(src), -1) {
			m[g[1]] = g[2]
		}
	}
	c.protoNm[importPath] = m
	if n, ok := m[goType]; ok {
		return n, nil
	}
	return "", fmt.Errorf("%s: no proto registration for type %s", importPath, goType)
}

// typeURLOfPtrType resolves `*alias.T` / `alias.T` (as ast) to the proto type URL.
func (c *c15Ctx) typeURLOfType(f *File, imports map[string]string, e ast.Expr) (string, error) {
	if st, ok := e.(*ast.StarExpr); ok {
		e = st.X
	}
	sel, ok := e.(*ast.SelectorExpr)
	if !ok {
		return "", fmt.Errorf("%s:%d: %s is not a qualified type", f.Path, f.line(e), exprString(e))
	}
	id, ok := sel.X.(*ast.Ident)
	if !ok {
		return "", fmt.Errorf("%s:%d: %s is not a qualified type", f.Path, f.line(e), exprString(e))
	}
	p, ok := imports[id.Name]
	if !ok {
		return "", fmt.Errorf("%s:%d: no import for %s", f.Path, f.line(e), id.Name)
	}
	n, err := c.protoName(p, sel.Sel.Name)
	if err != nil {
		return "", err
	}
	return "/" + n, nil
}

// msgTypeURL resolves `sdk.MsgTypeURL(&alias.T{})`.
func (c *c15Ctx) msgTypeURL(f *File, imports map[string]string, e ast.Expr) (string, error) {
	call, ok := e.(*ast.CallExpr)
	if !ok || exprString(call.Fun) != "sdk.MsgTypeURL" || len(call.Args) != 1 {
		return "", fmt.Errorf("%s:%d: expected sdk.MsgTypeURL(&T{}), got %s", f.Path, f.line(e), exprString(e))
	}
	u, ok := call.Args[0].(*ast.UnaryExpr)
	if !ok || u.Op != token.AND {
		return "", fmt.Errorf("%s:%d: expected &T{}, got %s", f.Path, f.line(e), exprString(call.Args[0]))
	}
	cl, ok := u.X.(*ast.CompositeLit)
	if !ok || len(cl.Elts) != 0 {
		return "", fmt.Errorf("%s:%d: expected &T{}, got %s", f.Path, f.line(e), exprString(call.Args[0]))
	}
	return c.typeURLOfType(f, imports, cl.Type)
}

// c15CtorName names a decorator expression: constructor call -> function name, literal -> type name.
func c15CtorName(e ast.Expr) (string, []ast.Expr, error) {
	switch v := e.(type) {
	case *ast.CallExpr:
		return exprString(v.Fun), v.Args, nil
	case *ast.CompositeLit:
		return exprString(v.Type), nil, nil
	case *ast.Ident:
		return v.Name, nil, nil
	}
	return "", nil, fmt.Errorf("unsupported decorator expression %s", exprString(e))
}

func c15Cond(e ast.Expr) string {
	s := exprString(e)
	switch s {
	case "!options.isEIP712":
		return "!isEIP712"
	case "options.isEIP712":
		return "isEIP712"
	case "len(options.AddressFetchers) > 0":
		return "hasFetchers"
	}
	return s
}

type c15Dec struct {
	Cond string `json:"cond"`
	Name string `json:"name"`
}

// appendArgs recognises `decorators = append(decorators, a, b, …)`.
func c15AppendArgs(st ast.Stmt, slice string) ([]ast.Expr, bool) {
	as, ok := st.(*ast.AssignStmt)
	if !ok || as.Tok != token.ASSIGN || len(as.Lhs) != 1 || len(as.Rhs) != 1 || exprString(as.Lhs[0]) != slice {
		return nil, false
	}
	call, ok := as.Rhs[0].(*ast.CallExpr)
	if !ok || exprString(call.Fun) != "append" || len(call.Args) < 1 || exprString(call.Args[0]) != slice {
		return nil, false
	}
	return call.Args[1:], true
}

type c15Chain struct {
	decs      []c15Dec
	sigVar    string   // name of a local holding a decorator chosen by a condition ("" if none)
	sigAlts   []c15Dec // (cond, constructor) alternatives for that local, later entries override
	authzArgs []ast.Expr
	authzSeen int
}

// c15ParseChain understands the two shapes a chain constructor has in ante.go:
//   return sdk.ChainAnteDecorators(a, b, …)
// or a statement list made of
//   decorators := []sdk.AnteDecorator{…} ; decorators = append(decorators, …) ; if cond { decorators = append(…) } ;
//   var x sdk.AnteDecorator = ctor(…) ; if cond { x = ctor(…) } ; return sdk.ChainAnteDecorators(decorators...)
// Anything else is an error (the file then fails to compile and the obligations are re-opened).
func c15ParseChain(af *File, fn string) (*c15Chain, error) {
	fd, err := af.funcDecl(fn)
	if err != nil {
		return nil, err
	}
	ch := &c15Chain{}
	addDec := func(cond string, e ast.Expr) error {
		name, args, err := c15CtorName(e)
		if err != nil {
			return fmt.Errorf("%s:%d: %v", af.Path, af.line(e), err)
		}
		if name == "NewAuthzLimiterDecorator" {
			ch.authzSeen++
			ch.authzArgs = args
		}
		ch.decs = append(ch.decs, c15Dec{cond, name})
		return nil
	}
	returned := false
	for _, st := range fd.Body.List {
		if returned {
			return nil, fmt.Errorf("%s:%d: statement after return in %s", af.Path, af.line(st), fn)
		}
		if as, ok := st.(*ast.AssignStmt); ok && as.Tok == token.DEFINE && len(as.Lhs) == 1 && exprString(as.Lhs[0]) == "decorators" {
			cl, ok := as.Rhs[0].(*ast.CompositeLit)
			if !ok {
				return nil, fmt.Errorf("%s:%d: decorators is not initialised by a literal", af.Path, af.line(st))
			}
			for _, el := range cl.Elts {
				if err := addDec("", el); err != nil {
					return nil, err
				}
			}
			continue
		}
		if args, ok := c15AppendArgs(st, "decorators"); ok {
			for _, a := range args {
				if err := addDec("", a); err != nil {
					return nil, err
				}
			}
			continue
		}
		if is, ok := st.(*ast.IfStmt); ok && is.Init == nil && is.Else == nil && len(is.Body.List) == 1 {
			if args, ok := c15AppendArgs(is.Body.List[0], "decorators"); ok {
				for _, a := range args {
					if err := addDec(c15Cond(is.Cond), a); err != nil {
						return nil, err
					}
				}
				continue
			}
			// `if cond { x = ctor(…) }`
			if as, ok := is.Body.List[0].(*ast.AssignStmt); ok && as.Tok == token.ASSIGN && len(as.Lhs) == 1 && ch.sigVar != "" && exprString(as.Lhs[0]) == ch.sigVar {
				name, _, err := c15CtorName(as.Rhs[0])
				if err != nil {
					return nil, err
				}
				ch.sigAlts = append(ch.sigAlts, c15Dec{c15Cond(is.Cond), name})
				continue
			}
		}
		if ds, ok := st.(*ast.DeclStmt); ok {
			if gd, ok := ds.Decl.(*ast.GenDecl); ok && gd.Tok == token.VAR && len(gd.Specs) == 1 {
				vs := gd.Specs[0].(*ast.ValueSpec)
				if len(vs.Names) == 1 && len(vs.Values) == 1 && ch.sigVar == "" {
					ch.sigVar = vs.Names[0].Name
					name, _, err := c15CtorName(vs.Values[0])
					if err != nil {
						return nil, err
					}
					ch.sigAlts = append(ch.sigAlts, c15Dec{"", name})
					continue
				}
			}
		}
		if rs, ok := st.(*ast.ReturnStmt); ok && len(rs.Results) == 1 {
			call, ok := rs.Results[0].(*ast.CallExpr)
			if !ok || exprString(call.Fun) != "sdk.ChainAnteDecorators" {
				return nil, fmt.Errorf("%s:%d: unexpected return %s", af.Path, af.line(st), af.text(st))
			}
			if call.Ellipsis != token.NoPos {
				if len(call.Args) != 1 || exprString(call.Args[0]) != "decorators" {
					return nil, fmt.Errorf("%s:%d: unexpected return %s", af.Path, af.line(st), af.text(st))
				}
			} else {
				if len(ch.decs) > 0 {
					return nil, fmt.Errorf("%s:%d: %s builds `decorators` but returns another list", af.Path, af.line(st), fn)
				}
				for _, a := range call.Args {
					if err := addDec("", a); err != nil {
						return nil, err
					}
				}
			}
			returned = true
			continue
		}
		return nil, fmt.Errorf("%s:%d: %s has a statement the extractor does not understand: %s", af.Path, af.line(st), fn, af.text(st))
	}
	if !returned {
		return nil, fmt.Errorf("%s: %s does not return the chain", af.Path, fn)
	}
	return ch, nil
}

func emitC15Ante(repo string) (string, any, error) {
	c := &c15Ctx{repo: repo, dirs: map[string]string{}, protoNm: map[string]map[string]string{}}
	facts := map[string]any{}
	var sb strings.Builder
	sb.WriteString("namespace KV.Gen\n\n")

	// ------------------------------------------------------------------ ante.go
	af, err := parseFile(repo, "app/ante/ante.go")
	if err != nil {
		return "", nil, err
	}
	aimp := c15Imports(af)

	// newCosmosAnteHandler / newEthAnteHandler: chains
	cosmosCh, err := c15ParseChain(af, "newCosmosAnteHandler")
	if err != nil {
		return "", nil, err
	}
	ethCh, err := c15ParseChain(af, "newEthAnteHandler")
	if err != nil {
		return "", nil, err
	}
	cosmos, sigVar, sigAlts := cosmosCh.decs, cosmosCh.sigVar, cosmosCh.sigAlts
	eth := ethCh.decs
	if cosmosCh.authzSeen > 1 || ethCh.authzSeen > 0 && cosmosCh.authzSeen > 0 {
		return "", nil, fmt.Errorf("app/ante/ante.go: NewAuthzLimiterDecorator appears %d times", cosmosCh.authzSeen+ethCh.authzSeen)
	}
	if ethCh.sigVar != "" {
		return "", nil, fmt.Errorf("app/ante/ante.go: newEthAnteHandler declares a local decorator variable %s", ethCh.sigVar)
	}
	var authzURLs []string
	for _, a := range cosmosCh.authzArgs {
		u, err := c.msgTypeURL(af, aimp, a)
		if err != nil {
			return "", nil, err
		}
		authzURLs = append(authzURLs, u)
	}

	// NewAnteHandler: router
	nd, err := af.funcDecl("NewAnteHandler")
	if err != nil {
		return "", nil, err
	}
	var maxOpts, routeLen int64 = -1, -1
	type extCase struct {
		URL     string `json:"url"`
		Handler string `json:"handler"`
		EIP712  bool   `json:"eip712"`
	}
	var extCases []extCase
	defaultRejects := false
	fallHandler, fallEIP := "", false
	var rerr error
	handlerOf := func(body []ast.Stmt) (string, bool, bool) {
		// `anteHandler = ctor(args)`; isEIP712 read from the composite literal argument if present
		for _, st := range body {
			as, ok := st.(*ast.AssignStmt)
			if !ok || len(as.Lhs) != 1 || exprString(as.Lhs[0]) != "anteHandler" {
				continue
			}
			call, ok := as.Rhs[0].(*ast.CallExpr)
			if !ok {
				continue
			}
			eip := false
			for _, a := range call.Args {
				if cl, ok := a.(*ast.CompositeLit); ok {
					for _, el := range cl.Elts {
						if kv, ok := el.(*ast.KeyValueExpr); ok && exprString(kv.Key) == "isEIP712" {
							eip = exprString(kv.Value) == "true"
						}
					}
				}
			}
			return exprString(call.Fun), eip, true
		}
		return "", false, false
	}
	returnsErr := func(body []ast.Stmt) bool {
		if len(body) == 0 {
			return false
		}
		rs, ok := body[len(body)-1].(*ast.ReturnStmt)
		if !ok || len(rs.Results) != 2 {
			return false
		}
		return exprString(rs.Results[1]) != "nil" && exprString(rs.Results[0]) == "ctx"
	}
	ast.Inspect(nd.Body, func(n ast.Node) bool {
		switch v := n.(type) {
		case *ast.IfStmt:
			be, ok := v.Cond.(*ast.BinaryExpr)
			if ok && exprString(be.X) == "len(opts)" {
				k, err := evalInt(be.Y, nil)
				if err != nil {
					rerr = err
					return false
				}
				switch be.Op {
				case token.GTR:
					if maxOpts != -1 || !returnsErr(v.Body.List) {
						rerr = fmt.Errorf("app/ante/ante.go:%d: unexpected `len(opts) >` guard", af.line(v))
						return false
					}
					maxOpts = k.Int64()
				case token.EQL:
					if routeLen != -1 {
						rerr = fmt.Errorf("app/ante/ante.go:%d: second `len(opts) ==` test", af.line(v))
						return false
					}
					routeLen = k.Int64()
				default:
					rerr = fmt.Errorf("app/ante/ante.go:%d: unexpected comparison on len(opts): %s", af.line(v), exprString(v.Cond))
					return false
				}
			} else if strings.Contains(exprString(v.Cond), "len(opts)") {
				rerr = fmt.Errorf("app/ante/ante.go:%d: unexpected condition on len(opts): %s", af.line(v), exprString(v.Cond))
				return false
			}
		case *ast.SwitchStmt:
			if v.Tag == nil || exprString(v.Tag) != "typeURL" {
				return true
			}
			for _, cc := range v.Body.List {
				cl := cc.(*ast.CaseClause)
				if cl.List == nil {
					defaultRejects = returnsErr(cl.Body)
					continue
				}
				h, eip, ok := handlerOf(cl.Body)
				if !ok {
					rerr = fmt.Errorf("app/ante/ante.go:%d: extension-option case without `anteHandler = …`", af.line(cl))
					return false
				}
				for _, e := range cl.List {
					s, err := strLit(e)
					if err != nil {
						rerr = err
						return false
					}
					extCases = append(extCases, extCase{s, h, eip})
				}
			}
		case *ast.TypeSwitchStmt:
			for _, cc := range v.Body.List {
				cl := cc.(*ast.CaseClause)
				if len(cl.List) == 1 && exprString(cl.List[0]) == "sdk.Tx" {
					h, eip, ok := handlerOf(cl.Body)
					if ok {
						fallHandler, fallEIP = h, eip
					}
				}
			}
		}
		return true
	})
	if rerr != nil {
		return "", nil, rerr
	}
	if maxOpts < 0 || routeLen < 0 || fallHandler == "" || len(extCases) == 0 {
		return "", nil, fmt.Errorf("app/ante/ante.go: NewAnteHandler router shape not recognised (max=%d routeLen=%d fall=%q cases=%d)", maxOpts, routeLen, fallHandler, len(extCases))
	}

	// ------------------------------------------------------------------ vesting.go
	vf, err := parseFile(repo, "app/ante/vesting.go")
	if err != nil {
		return "", nil, err
	}
	vimp := c15Imports(vf)
	vd, err := vf.funcDecl("NewVestingAccountDecorator")
	if err != nil {
		return "", nil, err
	}
	var vestURLs []string
	vestFound := false
	ast.Inspect(vd.Body, func(n ast.Node) bool {
		kv, ok := n.(*ast.KeyValueExpr)
		if !ok || exprString(kv.Key) != "disabledMsgTypeUrls" {
			return true
		}
		cl, ok := kv.Value.(*ast.CompositeLit)
		if !ok {
			rerr = fmt.Errorf("app/ante/vesting.go:%d: disabledMsgTypeUrls is not a literal", vf.line(kv))
			return false
		}
		vestFound = true
		for _, el := range cl.Elts {
			u, err := c.msgTypeURL(vf, vimp, el)
			if err != nil {
				rerr = err
				return false
			}
			vestURLs = append(vestURLs, u)
		}
		return false
	})
	if rerr != nil {
		return "", nil, rerr
	}
	if !vestFound {
		return "", nil, fmt.Errorf("app/ante/vesting.go: disabledMsgTypeUrls literal not found")
	}

	// ------------------------------------------------------------------ authz.go
	zf, err := parseFile(repo, "app/ante/authz.go")
	if err != nil {
		return "", nil, err
	}
	zimp := c15Imports(zf)
	topFlag, innerFlag := "", ""
	for _, d := range zf.F.Decls {
		fd, ok := d.(*ast.FuncDecl)
		if !ok || fd.Body == nil {
			continue
		}
		name := fd.Name.Name
		ast.Inspect(fd.Body, func(n ast.Node) bool {
			call, ok := n.(*ast.CallExpr)
			if !ok {
				return true
			}
			sel, ok := call.Fun.(*ast.SelectorExpr)
			if !ok || sel.Sel.Name != "checkForDisabledMsg" || len(call.Args) != 2 {
				return true
			}
			v := exprString(call.Args[1])
			if name == "AnteHandle" {
				if topFlag != "" {
					rerr = fmt.Errorf("app/ante/authz.go: two top-level calls of checkForDisabledMsg")
				}
				topFlag = v
			} else if name == "checkForDisabledMsg" {
				if innerFlag != "" {
					rerr = fmt.Errorf("app/ante/authz.go: two recursive calls of checkForDisabledMsg")
				}
				innerFlag = v
			} else {
				rerr = fmt.Errorf("app/ante/authz.go: checkForDisabledMsg called from %s", name)
			}
			return true
		})
	}
	if rerr != nil {
		return "", nil, rerr
	}
	if (topFlag != "true" && topFlag != "false") || (innerFlag != "true" && innerFlag != "false") {
		return "", nil, fmt.Errorf("app/ante/authz.go: flags of checkForDisabledMsg are not literals (top=%q inner=%q)", topFlag, innerFlag)
	}
	cd, err := zf.funcDecl("checkForDisabledMsg")
	if err != nil {
		return "", nil, err
	}
	var caseOrder []string
	grantURL, execURL := "", ""
	ast.Inspect(cd.Body, func(n ast.Node) bool {
		sw, ok := n.(*ast.SwitchStmt)
		if !ok || sw.Tag != nil {
			return true
		}
		for _, cc := range sw.Body.List {
			cl := cc.(*ast.CaseClause)
			if cl.List == nil {
				caseOrder = append(caseOrder, "default")
				continue
			}
			if len(cl.List) != 1 {
				rerr = fmt.Errorf("app/ante/authz.go:%d: case with several expressions", zf.line(cl))
				return false
			}
			e := cl.List[0]
			if be, ok := e.(*ast.BinaryExpr); ok && be.Op == token.EQL && exprString(be.X) == "typeURL" {
				u, err := c.msgTypeURL(zf, zimp, be.Y)
				if err != nil {
					rerr = err
					return false
				}
				// which authz message: by the type asserted in the body
				kind := ""
				ast.Inspect(cl, func(m ast.Node) bool {
					if ta, ok := m.(*ast.TypeAssertExpr); ok && ta.Type != nil {
						t := exprString(ta.Type)
						if strings.HasSuffix(t, "MsgGrant") {
							kind = "grant"
						} else if strings.HasSuffix(t, "MsgExec") {
							kind = "exec"
						}
					}
					return true
				})
				switch kind {
				case "grant":
					grantURL = u
				case "exec":
					execURL = u
				default:
					rerr = fmt.Errorf("app/ante/authz.go:%d: case on %s asserts neither MsgGrant nor MsgExec", zf.line(cl), u)
					return false
				}
				caseOrder = append(caseOrder, kind)
			} else {
				caseOrder = append(caseOrder, exprString(e))
			}
		}
		return false
	})
	if rerr != nil {
		return "", nil, rerr
	}
	if grantURL == "" || execURL == "" {
		return "", nil, fmt.Errorf("app/ante/authz.go: MsgGrant / MsgExec cases not found")
	}

	// ------------------------------------------------------------------ authorized.go
	mf, err := parseFile(repo, "app/ante/authorized.go")
	if err != nil {
		return "", nil, err
	}
	type atom struct {
		Atom string `json:"atom"`
		Pol  bool   `json:"positive"`
	}
	var guard []atom
	guardFound := 0
	for _, d := range mf.F.Decls {
		fd, ok := d.(*ast.FuncDecl)
		if !ok || fd.Name.Name != "AnteHandle" || fd.Body == nil {
			continue
		}
		// the guard is the only top-level `if` of the method; everything else must be the final return next(…)
		for _, st := range fd.Body.List {
			switch v := st.(type) {
			case *ast.IfStmt:
				guardFound++
				var walk func(e ast.Expr) error
				walk = func(e ast.Expr) error {
					switch x := e.(type) {
					case *ast.ParenExpr:
						return walk(x.X)
					case *ast.BinaryExpr:
						if x.Op != token.LAND {
							return fmt.Errorf("app/ante/authorized.go:%d: guard is not a conjunction: %s", mf.line(e), exprString(e))
						}
						if err := walk(x.X); err != nil {
							return err
						}
						return walk(x.Y)
					case *ast.UnaryExpr:
						if x.Op == token.NOT {
							guard = append(guard, atom{exprString(x.X), false})
							return nil
						}
					}
					guard = append(guard, atom{exprString(e), true})
					return nil
				}
				if err := walk(v.Cond); err != nil {
					return "", nil, err
				}
			case *ast.ReturnStmt:
				if len(v.Results) != 1 || !strings.HasPrefix(exprString(v.Results[0]), "next(") {
					return "", nil, fmt.Errorf("app/ante/authorized.go:%d: unexpected return", mf.line(v))
				}
			default:
				return "", nil, fmt.Errorf("app/ante/authorized.go:%d: AnteHandle has a statement the extractor does not understand", mf.line(st))
			}
		}
	}
	if guardFound != 1 {
		return "", nil, fmt.Errorf("app/ante/authorized.go: expected exactly one guard in AnteHandle, found %d", guardFound)
	}

	// ------------------------------------------------------------------ app.go
	pf, err := parseFile(repo, "app/app.go")
	if err != nil {
		return "", nil, err
	}
	var fetchers []string
	fetchGuard := ""
	checkerNil := false
	checkerSeen := false
	fetchersWired := false
	ast.Inspect(pf.F, func(n ast.Node) bool {
		switch v := n.(type) {
		case *ast.IfStmt:
			if len(v.Body.List) == 1 {
				if args, ok := c15AppendArgs(v.Body.List[0], "fetchers"); ok {
					fetchGuard = exprString(v.Cond)
					for _, a := range args {
						if _, isLit := a.(*ast.FuncLit); isLit {
							fetchers = append(fetchers, strings.Join(strings.Fields(pf.text(a)), " "))
						} else {
							fetchers = append(fetchers, exprString(a))
						}
					}
				}
			}
		case *ast.CompositeLit:
			if exprString(v.Type) == "ante.HandlerOptions" {
				for _, el := range v.Elts {
					kv, ok := el.(*ast.KeyValueExpr)
					if !ok {
						continue
					}
					switch exprString(kv.Key) {
					case "ExtensionOptionChecker":
						checkerSeen = true
						checkerNil = exprString(kv.Value) == "nil"
					case "AddressFetchers":
						fetchersWired = exprString(kv.Value) == "fetchers"
					}
				}
			}
		}
		return true
	})
	if !checkerSeen {
		checkerNil = true // field left at its zero value
	}
	if !fetchersWired {
		return "", nil, fmt.Errorf("app/app.go: ante.HandlerOptions.AddressFetchers is not the local `fetchers`")
	}

	// ------------------------------------------------------------------ ethermint decorators (dependency)
	evmAnteImport := ""
	for alias, p := range aimp {
		if alias == "evmante" {
			evmAnteImport = p
		}
	}
	if evmAnteImport == "" {
		return "", nil, fmt.Errorf("app/ante/ante.go: no import named evmante")
	}
	evmDir, err := c.pkgDir(evmAnteImport)
	if err != nil {
		return "", nil, err
	}
	assertedType := func(file, recvType string) (string, error) {
		src, err := os.ReadFile(filepath.Join(evmDir, file))
		if err != nil {
			return "", err
		}
		rel := filepath.Join("<"+evmAnteImport+">", file)
		fs := token.NewFileSet()
		pfile, err := parser.ParseFile(fs, rel, src, parser.ParseComments)
		if err != nil {
			return "", err
		}
		ef := &File{fs, pfile, rel, src}
		eimp := c15Imports(ef)
		var urls []string
		for _, d := range pfile.Decls {
			fd, ok := d.(*ast.FuncDecl)
			if !ok || fd.Name.Name != "AnteHandle" || fd.Recv == nil || len(fd.Recv.List) != 1 || exprString(fd.Recv.List[0].Type) != recvType {
				continue
			}
			var ierr error
			ast.Inspect(fd.Body, func(n ast.Node) bool {
				ta, ok := n.(*ast.TypeAssertExpr)
				if !ok || ta.Type == nil || exprString(ta.X) != "msg" {
					return true
				}
				u, err := c.typeURLOfType(ef, eimp, ta.Type)
				if err != nil {
					ierr = err
					return false
				}
				urls = append(urls, u)
				return true
			})
			if ierr != nil {
				return "", ierr
			}
		}
		if len(urls) != 1 {
			return "", fmt.Errorf("%s: expected one message type assertion in %s.AnteHandle, found %d", rel, recvType, len(urls))
		}
		return urls[0], nil
	}
	rejectURL, err := assertedType("reject_msgs.go", "RejectMessagesDecorator")
	if err != nil {
		return "", nil, err
	}
	ethSigURL, err := assertedType("sigverify.go", "EthSigVerificationDecorator")
	if err != nil {
		return "", nil, err
	}

	// ------------------------------------------------------------------ emit
	pairList := func(ds []c15Dec) string {
		q := make([]string, len(ds))
		for i, d := range ds {
			q[i] = "(" + leanStr(d.Cond) + ", " + leanStr(d.Name) + ")"
		}
		return "[" + strings.Join(q, ", ") + "]"
	}
	fmt.Fprintf(&sb, "/-- app/ante/ante.go newCosmosAnteHandler: arguments of `NewAuthzLimiterDecorator`, as proto type URLs -/\ndef c15AuthzDisabled : List String := %s\n\n", leanStrList(authzURLs))
	fmt.Fprintf(&sb, "/-- app/ante/vesting.go NewVestingAccountDecorator: `disabledMsgTypeUrls` -/\ndef c15VestingDisabled : List String := %s\n\n", leanStrList(vestURLs))
	fmt.Fprintf(&sb, "/-- app/ante/authz.go: type URL of the case that asserts `*authz.MsgGrant` -/\ndef c15MsgGrantURL : String := %s\n\n", leanStr(grantURL))
	fmt.Fprintf(&sb, "/-- app/ante/authz.go: type URL of the case that asserts `*authz.MsgExec` -/\ndef c15MsgExecURL : String := %s\n\n", leanStr(execURL))
	fmt.Fprintf(&sb, "/-- app/ante/authz.go checkForDisabledMsg: the switch cases in source order -/\ndef c15AuthzCaseOrder : List String := %s\n\n", leanStrList(caseOrder))
	fmt.Fprintf(&sb, "/-- app/ante/authz.go AnteHandle: `searchOnlyInAuthzMsgs` passed for the transaction's own messages -/\ndef c15AuthzTopFlag : Bool := %s\n\n", topFlag)
	fmt.Fprintf(&sb, "/-- app/ante/authz.go checkForDisabledMsg: `searchOnlyInAuthzMsgs` passed for the messages inside a MsgExec -/\ndef c15AuthzInnerFlag : Bool := %s\n\n", innerFlag)
	fmt.Fprintf(&sb, "/-- ethermint app/ante/reject_msgs.go: the message type RejectMessagesDecorator refuses -/\ndef c15RejectMsgsURL : String := %s\n\n", leanStr(rejectURL))
	fmt.Fprintf(&sb, "/-- ethermint app/ante/sigverify.go: the only message type EthSigVerificationDecorator lets through -/\ndef c15EthOnlyURL : String := %s\n\n", leanStr(ethSigURL))
	fmt.Fprintf(&sb, "/-- app/ante/ante.go NewAnteHandler: N of `len(opts) > N` (reject) -/\ndef c15ExtOptsMax : Nat := %d\n\n", maxOpts)
	fmt.Fprintf(&sb, "/-- app/ante/ante.go NewAnteHandler: N of `len(opts) == N` (route on opts[0]) -/\ndef c15ExtOptsRouteLen : Nat := %d\n\n", routeLen)
	{
		q := make([]string, len(extCases))
		for i, e := range extCases {
			q[i] = "(" + leanStr(e.URL) + ", " + leanStr(e.Handler) + ", " + leanBool(e.EIP712) + ")"
		}
		fmt.Fprintf(&sb, "/-- app/ante/ante.go NewAnteHandler: the extension-option switch: (type URL, handler constructor, isEIP712) -/\ndef c15ExtOptionCases : List (String × String × Bool) := [%s]\n\n", strings.Join(q, ", "))
	}
	fmt.Fprintf(&sb, "/-- app/ante/ante.go NewAnteHandler: the `default:` case of the extension-option switch returns an error -/\ndef c15ExtDefaultRejects : Bool := %s\n\n", leanBool(defaultRejects))
	fmt.Fprintf(&sb, "/-- app/ante/ante.go NewAnteHandler: handler of a transaction that was not routed on an option -/\ndef c15FallThrough : String × Bool := (%s, %s)\n\n", leanStr(fallHandler), leanBool(fallEIP))
	fmt.Fprintf(&sb, "/-- app/ante/ante.go newCosmosAnteHandler: (condition, constructor) in chain order; \"\" = unconditional -/\ndef c15CosmosChain : List (String × String) := %s\n\n", pairList(cosmos))
	fmt.Fprintf(&sb, "/-- app/ante/ante.go newCosmosAnteHandler: what the local `%s` holds: (condition, constructor), later entries override -/\ndef c15SigVerification : List (String × String) := %s\n\n", sigVar, pairList(sigAlts))
	fmt.Fprintf(&sb, "/-- app/ante/ante.go newCosmosAnteHandler: name of the local holding the signature verification decorator -/\ndef c15SigVerificationVar : String := %s\n\n", leanStr(sigVar))
	fmt.Fprintf(&sb, "/-- app/ante/ante.go newEthAnteHandler: (condition, constructor) in chain order -/\ndef c15EthChain : List (String × String) := %s\n\n", pairList(eth))
	{
		q := make([]string, len(guard))
		for i, a := range guard {
			q[i] = "(" + leanStr(a.Atom) + ", " + leanBool(a.Pol) + ")"
		}
		fmt.Fprintf(&sb, "/-- app/ante/authorized.go AnteHandle: the guard as a conjunction of (atom, required value) -/\ndef c15MempoolGuard : List (String × Bool) := [%s]\n\n", strings.Join(q, ", "))
	}
	fmt.Fprintf(&sb, "/-- app/app.go: condition under which address fetchers are configured -/\ndef c15FetchersGuard : String := %s\n\n", leanStr(fetchGuard))
	fmt.Fprintf(&sb, "/-- app/app.go: the fetchers appended under that condition -/\ndef c15Fetchers : List String := %s\n\n", leanStrList(fetchers))
	fmt.Fprintf(&sb, "/-- app/app.go: `ExtensionOptionChecker` handed to the ante handler is nil (SDK default: reject every option) -/\ndef c15ExtensionOptionCheckerNil : Bool := %s\n\n", leanBool(checkerNil))
	sb.WriteString("end KV.Gen\n")

	facts["authzDisabled"] = authzURLs
	facts["vestingDisabled"] = vestURLs
	facts["msgGrantURL"] = grantURL
	facts["msgExecURL"] = execURL
	facts["authzCaseOrder"] = caseOrder
	facts["authzTopFlag"] = topFlag
	facts["authzInnerFlag"] = innerFlag
	facts["rejectMsgsURL"] = rejectURL
	facts["ethOnlyURL"] = ethSigURL
	facts["extOptsMax"] = maxOpts
	facts["extOptsRouteLen"] = routeLen
	facts["extOptionCases"] = extCases
	facts["extDefaultRejects"] = defaultRejects
	facts["fallThrough"] = []any{fallHandler, fallEIP}
	facts["cosmosChain"] = cosmos
	facts["sigVerification"] = sigAlts
	facts["ethChain"] = eth
	facts["mempoolGuard"] = guard
	facts["fetchersGuard"] = fetchGuard
	facts["fetchers"] = fetchers
	facts["extensionOptionCheckerNil"] = checkerNil
	return sb.String(), facts, nil
}
