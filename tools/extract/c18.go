package main

// C18 — source facts of the price feed and of its consumers (tables only, no control flow):
//   * the text of the comparison that makes SetPrice refuse a post, of the expiry filter of each of
//     the two aggregation routines, and of the zero test of GetCurrentPrice;
//   * what the pricefeed EndBlocker calls;
//   * every function of x/cdp and x/hard (non-test, non-client) that reads the price feed
//     (`pricefeedKeeper.GetCurrentPrice`) or the cdp status flags (`GetMarketStatus`), with the number
//     of call sites — a new or removed reader changes the table and re-opens C18_source_shape.

import (
	"fmt"
	"go/ast"
	"os"
	"path/filepath"
	"sort"
	"strings"
)

func init() { Register("C18Pricefeed", emitC18) }

func c18Squash(s string) string { return strings.Join(strings.Fields(s), " ") }

func c18Str(s string) string {
	s = strings.ReplaceAll(s, `\`, `\\`)
	s = strings.ReplaceAll(s, `"`, `\"`)
	return `"` + s + `"`
}

// c18IfConds returns the squashed condition text of every `if` inside fn (pre-order, source order).
func c18IfConds(f *File, fd *ast.FuncDecl) []string {
	var out []string
	ast.Inspect(fd.Body, func(n ast.Node) bool {
		if is, ok := n.(*ast.IfStmt); ok {
			out = append(out, c18Squash(f.text(is.Cond)))
		}
		return true
	})
	return out
}

func c18First(conds []string, containing string) (string, error) {
	for _, c := range conds {
		if strings.Contains(c, containing) {
			return c, nil
		}
	}
	return "", fmt.Errorf("no `if` mentioning %s", containing)
}

type c18Reader struct {
	File, Fn, Callee string
	Sites            int
}

func emitC18(repo string) (string, any, error) {
	kf, err := parseFile(repo, "x/pricefeed/keeper/keeper.go")
	if err != nil {
		return "", nil, err
	}
	guards := []struct{ lean, fn, mention, doc string }{
		{"c18SetPriceGuard", "SetPrice", "expiry", "SetPrice: the condition under which a post is refused"},
		{"c18PerMarketFilter", "SetCurrentPrices", "Expiry", "SetCurrentPrices: the condition under which a raw price is kept"},
		{"c18AllMarketsFilter", "SetCurrentPricesForAllMarkets", "Expiry", "SetCurrentPricesForAllMarkets: the condition under which a raw price is kept"},
		{"c18NoPriceTest", "SetCurrentPricesForAllMarkets", "len(", "SetCurrentPricesForAllMarkets: the condition under which the stored price is zeroed"},
		{"c18ZeroTest", "GetCurrentPrice", "Price", "GetCurrentPrice: the condition under which a stored price reads as unavailable"},
	}
	var sb strings.Builder
	facts := map[string]any{}
	sb.WriteString("namespace KV.Gen\n\n")
	for _, g := range guards {
		fd, err := kf.funcDecl(g.fn)
		if err != nil {
			return "", nil, err
		}
		c, err := c18First(c18IfConds(kf, fd), g.mention)
		if err != nil {
			return "", nil, fmt.Errorf("%s: %v", g.fn, err)
		}
		fmt.Fprintf(&sb, "/-- x/pricefeed/keeper/keeper.go %s -/\ndef %s : String := %s\n\n", g.doc, g.lean, c18Str(c))
		facts[g.lean] = c
	}
	// the median: sort comparator and the mean expression
	fd, err := kf.funcDecl("CalculateMedianPrice")
	if err != nil {
		return "", nil, err
	}
	less := ""
	ast.Inspect(fd.Body, func(n ast.Node) bool {
		if fl, ok := n.(*ast.FuncLit); ok && less == "" && len(fl.Body.List) == 1 {
			if r, ok := fl.Body.List[0].(*ast.ReturnStmt); ok && len(r.Results) == 1 {
				less = c18Squash(kf.text(r.Results[0]))
			}
		}
		return true
	})
	if less == "" {
		return "", nil, fmt.Errorf("CalculateMedianPrice: no sort comparator found")
	}
	fmt.Fprintf(&sb, "/-- CalculateMedianPrice: the `less` function handed to sort.Slice -/\ndef c18MedianLess : String := %s\n\n", c18Str(less))
	facts["c18MedianLess"] = less
	fm, err := kf.funcDecl("calculateMeanPrice")
	if err != nil {
		return "", nil, err
	}
	var meanStmts []string
	for _, st := range fm.Body.List {
		meanStmts = append(meanStmts, c18Squash(kf.text(st)))
	}
	fmt.Fprintf(&sb, "/-- calculateMeanPrice: its statements -/\ndef c18MeanBody : List String := [%s]\n\n", c18List(meanStmts))
	facts["c18MeanBody"] = meanStmts

	// the end blocker
	af, err := parseFile(repo, "x/pricefeed/abci.go")
	if err != nil {
		return "", nil, err
	}
	eb, err := af.funcDecl("EndBlocker")
	if err != nil {
		return "", nil, err
	}
	var calls []string
	for _, st := range eb.Body.List {
		if es, ok := st.(*ast.ExprStmt); ok {
			if ce, ok := es.X.(*ast.CallExpr); ok {
				calls = append(calls, c18Squash(af.text(ce.Fun)))
			}
		}
	}
	fmt.Fprintf(&sb, "/-- x/pricefeed/abci.go EndBlocker: the calls it makes (deferred telemetry aside) -/\ndef c18EndBlockerCalls : List String := [%s]\n\n", c18List(calls))
	facts["c18EndBlockerCalls"] = calls

	// price readers in x/cdp and x/hard
	var readers []c18Reader
	for _, mod := range []string{"x/cdp", "x/hard"} {
		root := filepath.Join(repo, mod)
		var dirs []string
		filepath.Walk(root, func(p string, info os.FileInfo, err error) error {
			if err == nil && info.IsDir() {
				rel, _ := filepath.Rel(repo, p)
				if !strings.Contains(rel, "/client") && !strings.Contains(rel, "/spec") && !strings.Contains(rel, "/testutil") &&
					!strings.Contains(rel, "/legacy") && !strings.Contains(rel, "/migrations") && !strings.Contains(rel, "/simulation") {
					dirs = append(dirs, rel)
				}
			}
			return nil
		})
		sort.Strings(dirs)
		for _, d := range dirs {
			files, err := parseDir(repo, d)
			if err != nil {
				return "", nil, err
			}
			for _, f := range files {
				for _, decl := range f.F.Decls {
					fn, ok := decl.(*ast.FuncDecl)
					if !ok || fn.Body == nil {
						continue
					}
					cnt := map[string]int{}
					ast.Inspect(fn.Body, func(n ast.Node) bool {
						ce, ok := n.(*ast.CallExpr)
						if !ok {
							return true
						}
						if se, ok := ce.Fun.(*ast.SelectorExpr); ok {
							switch se.Sel.Name {
							case "GetCurrentPrice":
								if strings.Contains(f.text(se.X), "pricefeedKeeper") {
									cnt["GetCurrentPrice"]++
								}
							case "GetMarketStatus", "UpdatePricefeedStatus":
								cnt[se.Sel.Name]++
							}
						}
						return true
					})
					for _, callee := range []string{"GetCurrentPrice", "GetMarketStatus", "UpdatePricefeedStatus"} {
						if cnt[callee] > 0 {
							readers = append(readers, c18Reader{f.Path, fn.Name.Name, callee, cnt[callee]})
						}
					}
				}
			}
		}
	}
	sort.Slice(readers, func(i, j int) bool {
		a, b := readers[i], readers[j]
		if a.File != b.File {
			return a.File < b.File
		}
		if a.Fn != b.Fn {
			return a.Fn < b.Fn
		}
		return a.Callee < b.Callee
	})
	sb.WriteString("/-- every function of x/cdp and x/hard that reads the price feed or the cdp status flags:\n    (file, function, callee, number of call sites) -/\ndef c18PriceReaders : List (String × String × String × Nat) := [\n")
	for i, r := range readers {
		sep := ","
		if i == len(readers)-1 {
			sep = ""
		}
		fmt.Fprintf(&sb, "  (%s, %s, %s, %d)%s\n", c18Str(r.File), c18Str(r.Fn), c18Str(r.Callee), r.Sites, sep)
	}
	sb.WriteString("]\n\n")
	facts["c18PriceReaders"] = readers

	// which gate each listed action calls, in source order
	gateNames := map[string]bool{"ValidateCollateral": true, "ValidateCollateralizationRatio": true,
		"CalculateCollateralizationRatio": true, "ValidateLiquidation": true, "ValidateBorrow": true,
		"IsWithinValidLtvRange": true, "LoadLiquidationData": true}
	actions := []struct{ file, fn string }{
		{"x/cdp/keeper/cdp.go", "AddCdp"}, {"x/cdp/keeper/deposit.go", "DepositCollateral"},
		{"x/cdp/keeper/deposit.go", "WithdrawCollateral"}, {"x/cdp/keeper/draw.go", "AddPrincipal"},
		{"x/cdp/keeper/seize.go", "AttemptKeeperLiquidation"}, {"x/cdp/keeper/cdp.go", "ValidateCollateralizationRatio"},
		{"x/cdp/keeper/seize.go", "ValidateLiquidation"},
		{"x/hard/keeper/borrow.go", "Borrow"}, {"x/hard/keeper/withdraw.go", "Withdraw"},
		{"x/hard/keeper/liquidation.go", "AttemptKeeperLiquidation"}, {"x/hard/keeper/liquidation.go", "IsWithinValidLtvRange"},
	}
	sb.WriteString("/-- the price gates each listed action calls, in source order: (file, function, gates) -/\ndef c18GateCalls : List (String × String × List String) := [\n")
	gateFacts := map[string][]string{}
	for i, a := range actions {
		f, err := parseFile(repo, a.file)
		if err != nil {
			return "", nil, err
		}
		fd, err := f.funcDecl(a.fn)
		if err != nil {
			return "", nil, err
		}
		var gs []string
		ast.Inspect(fd.Body, func(n ast.Node) bool {
			if ce, ok := n.(*ast.CallExpr); ok {
				if se, ok := ce.Fun.(*ast.SelectorExpr); ok && gateNames[se.Sel.Name] {
					gs = append(gs, se.Sel.Name)
				}
			}
			return true
		})
		sep := ","
		if i == len(actions)-1 {
			sep = ""
		}
		fmt.Fprintf(&sb, "  (%s, %s, [%s])%s\n", c18Str(a.file), c18Str(a.fn), c18List(gs), sep)
		gateFacts[a.file+":"+a.fn] = gs
	}
	sb.WriteString("]\n\nend KV.Gen\n")
	facts["c18GateCalls"] = gateFacts
	if len(readers) == 0 {
		return "", nil, fmt.Errorf("no price readers found in x/cdp, x/hard")
	}
	return sb.String(), facts, nil
}

func c18List(xs []string) string {
	q := make([]string, len(xs))
	for i, x := range xs {
		q[i] = c18Str(x)
	}
	return strings.Join(q, ", ")
}
