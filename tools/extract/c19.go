package main

// C19 wiring facts (tables only):
//   * app/app.go: the argument list of app.mm.SetOrderBeginBlockers, as module directory names
//     (the element after "/x/" of the import path behind each `<alias>.ModuleName`);
//   * x/community/abci.go: the keeper methods BeginBlocker calls, in order.

import (
	"fmt"
	"go/ast"
	"strconv"
	"strings"
)

func init() { Register("C19Wiring", emitC19Wiring) }

func c19ModuleOfImport(path string) string {
	parts := strings.Split(path, "/")
	for i, p := range parts {
		if p == "x" && i+1 < len(parts) {
			return parts[i+1]
		}
	}
	return parts[len(parts)-1]
}

func emitC19Wiring(repo string) (string, any, error) {
	f, err := parseFile(repo, "app/app.go")
	if err != nil {
		return "", nil, err
	}
	imports := map[string]string{} // alias -> path
	for _, im := range f.F.Imports {
		p, err := strconv.Unquote(im.Path.Value)
		if err != nil {
			return "", nil, err
		}
		alias := ""
		if im.Name != nil {
			alias = im.Name.Name
		} else {
			parts := strings.Split(p, "/")
			alias = parts[len(parts)-1]
		}
		imports[alias] = p
	}
	var order []string
	found := 0
	var ferr error
	ast.Inspect(f.F, func(n ast.Node) bool {
		call, ok := n.(*ast.CallExpr)
		if !ok {
			return true
		}
		sel, ok := call.Fun.(*ast.SelectorExpr)
		if !ok || sel.Sel.Name != "SetOrderBeginBlockers" {
			return true
		}
		found++
		for _, a := range call.Args {
			s, ok := a.(*ast.SelectorExpr)
			if !ok || s.Sel.Name != "ModuleName" {
				ferr = fmt.Errorf("app/app.go:%d: SetOrderBeginBlockers argument %s is not <pkg>.ModuleName", f.line(a), exprString(a))
				return false
			}
			id, ok := s.X.(*ast.Ident)
			if !ok {
				ferr = fmt.Errorf("app/app.go:%d: unexpected argument %s", f.line(a), exprString(a))
				return false
			}
			p, ok := imports[id.Name]
			if !ok {
				ferr = fmt.Errorf("app/app.go:%d: no import for %s", f.line(a), id.Name)
				return false
			}
			order = append(order, c19ModuleOfImport(p))
		}
		return true
	})
	if ferr != nil {
		return "", nil, ferr
	}
	if found != 1 {
		return "", nil, fmt.Errorf("app/app.go: expected exactly one SetOrderBeginBlockers call, found %d", found)
	}

	// x/community/abci.go BeginBlocker: keeper calls in order
	g, err := parseFile(repo, "x/community/abci.go")
	if err != nil {
		return "", nil, err
	}
	fd, err := g.funcDecl("BeginBlocker")
	if err != nil {
		return "", nil, err
	}
	var calls []string
	for _, st := range fd.Body.List {
		es, ok := st.(*ast.ExprStmt)
		if !ok {
			if _, isDefer := st.(*ast.DeferStmt); isDefer {
				continue // telemetry
			}
			return "", nil, fmt.Errorf("x/community/abci.go:%d: BeginBlocker has a statement that is not a plain call: %s", g.line(st), g.text(st))
		}
		call, ok := es.X.(*ast.CallExpr)
		if !ok {
			return "", nil, fmt.Errorf("x/community/abci.go:%d: not a call", g.line(st))
		}
		sel, ok := call.Fun.(*ast.SelectorExpr)
		if !ok {
			return "", nil, fmt.Errorf("x/community/abci.go:%d: not a method call", g.line(st))
		}
		calls = append(calls, sel.Sel.Name)
	}

	// x/kavadist/abci.go BeginBlocker must call MintPeriodInflation (and only that keeper method)
	h, err := parseFile(repo, "x/kavadist/abci.go")
	if err != nil {
		return "", nil, err
	}
	hd, err := h.funcDecl("BeginBlocker")
	if err != nil {
		return "", nil, err
	}
	var kdCalls []string
	ast.Inspect(hd.Body, func(n ast.Node) bool {
		if call, ok := n.(*ast.CallExpr); ok {
			if sel, ok := call.Fun.(*ast.SelectorExpr); ok {
				if id, ok := sel.X.(*ast.Ident); ok && id.Name == "k" {
					kdCalls = append(kdCalls, sel.Sel.Name)
				}
			}
		}
		return true
	})

	var sb strings.Builder
	sb.WriteString("namespace KV.Gen\n\n")
	fmt.Fprintf(&sb, "/-- app/app.go: arguments of `app.mm.SetOrderBeginBlockers`, as module directory names -/\ndef c19BeginBlockers : List String := %s\n\n", leanStrList(order))
	fmt.Fprintf(&sb, "/-- x/community/abci.go: keeper methods called by `BeginBlocker`, in order -/\ndef c19CommunityBeginBlockerCalls : List String := %s\n\n", leanStrList(calls))
	fmt.Fprintf(&sb, "/-- x/kavadist/abci.go: keeper methods called by `BeginBlocker` -/\ndef c19KavadistBeginBlockerCalls : List String := %s\n\n", leanStrList(kdCalls))
	sb.WriteString("end KV.Gen\n")
	facts := map[string]any{"beginBlockers": order, "communityCalls": calls, "kavadistCalls": kdCalls}
	return sb.String(), facts, nil
}
