package main

// c02.go: tables for property C02 (blocks always process; registered invariants hold).
//
//   Generated/C02PanicSites.lean  every `panic(` lexically inside a module's BeginBlocker/EndBlocker
//                                 (x/<mod>/abci.go) or inside a keeper method / package function reachable
//                                 from it through at most `c02Depth` named calls within the module, with the
//                                 call whose error is escalated when the panic has the shape
//                                 `if err != nil { panic(err) }`.
//   Generated/C02Wiring.lean      the invariant routes actually registered with the crisis keeper
//                                 (AppModule.RegisterInvariants → keeper.RegisterInvariants → ir.RegisterRoute),
//                                 the routes defined but not registered, and the begin / end blocker and
//                                 init-genesis module orders of app/app.go.
//
// Tables and facts only. The obligations over them are in Props/C02.lean.

import (
	"fmt"
	"go/ast"
	"go/token"
	"os"
	"path/filepath"
	"sort"
	"strings"
)

func init() {
	Register("C02PanicSites", emitC02PanicSites)
	Register("C02Wiring", emitC02Wiring)
}

const c02Depth = 2

type panicSite struct {
	Module string // x/<module>
	Phase  string // BeginBlocker | EndBlocker
	Fn     string // function that contains the panic
	Depth  int    // 0 = in the blocker itself
	Kind   string // errEscalation | explicit
	Callee string // call whose error is escalated / panic argument text
	File   string
	Line   int
	Idx    int // index among sites with the same (module, fn, callee)
	Wired  bool // AppModule.BeginBlock / EndBlock actually calls the blocker
}

// errSource finds, for `if err != nil { panic(...) }`, the call that last assigned err before the if.
func errSource(f *File, body *ast.BlockStmt, ifs *ast.IfStmt, errName string) string {
	// init statement of the if itself: if err := f(); err != nil
	if as, ok := ifs.Init.(*ast.AssignStmt); ok {
		for i, l := range as.Lhs {
			if identName(l) == errName {
				if len(as.Rhs) == 1 {
					return callText(f, as.Rhs[0])
				}
				if i < len(as.Rhs) {
					return callText(f, as.Rhs[i])
				}
			}
		}
	}
	src := ""
	done := false
	ast.Inspect(body, func(n ast.Node) bool {
		if done || n == nil {
			return false
		}
		if n == ast.Node(ifs) {
			done = true
			return false
		}
		if as, ok := n.(*ast.AssignStmt); ok && as.End() <= ifs.Pos() {
			for i, l := range as.Lhs {
				if identName(l) == errName {
					if len(as.Rhs) == 1 {
						src = callText(f, as.Rhs[0])
					} else if i < len(as.Rhs) {
						src = callText(f, as.Rhs[i])
					}
				}
			}
		}
		return true
	})
	return src
}

func callText(f *File, e ast.Expr) string {
	if c, ok := e.(*ast.CallExpr); ok {
		return f.text(c.Fun)
	}
	return f.text(e)
}

// condErrName: `err != nil` (possibly `err != nil && …`) → "err".
func condErrName(e ast.Expr) string {
	switch v := e.(type) {
	case *ast.BinaryExpr:
		if v.Op == token.NEQ && identName(v.Y) == "nil" {
			return identName(v.X)
		}
		if v.Op == token.LAND || v.Op == token.LOR {
			if n := condErrName(v.X); n != "" {
				return n
			}
			return condErrName(v.Y)
		}
	case *ast.ParenExpr:
		return condErrName(v.X)
	}
	return ""
}

func oneLine(s string) string {
	s = strings.Join(strings.Fields(s), " ")
	if len(s) > 90 {
		s = s[:90]
	}
	return s
}

// panicsIn lists the panic sites of one function body and the names of called functions/methods.
func panicsIn(f *File, body *ast.BlockStmt) (sites []panicSite, calls []string) {
	// map each panic call to the innermost enclosing if statement
	var stack []ast.Node
	seen := map[string]bool{}
	ast.Inspect(body, func(n ast.Node) bool {
		if n == nil {
			stack = stack[:len(stack)-1]
			return true
		}
		if call, ok := n.(*ast.CallExpr); ok {
			if identName(call.Fun) == "panic" {
				s := panicSite{Kind: "explicit", Line: f.line(call)}
				if len(call.Args) == 1 {
					s.Callee = oneLine(f.text(call.Args[0]))
				}
				for i := len(stack) - 1; i >= 0; i-- {
					if ifs, ok := stack[i].(*ast.IfStmt); ok {
						if en := condErrName(ifs.Cond); en != "" {
							s.Kind = "errEscalation"
							s.Callee = oneLine(errSource(f, body, ifs, en))
						}
						break
					}
					if _, ok := stack[i].(*ast.FuncLit); ok {
						break
					}
				}
				sites = append(sites, s)
			} else {
				var name string
				switch fn := call.Fun.(type) {
				case *ast.Ident:
					name = fn.Name
				case *ast.SelectorExpr:
					// k.Method(...) / keeper receiver; skip calls on other packages' values (k.bankKeeper.X)
					if id := identName(fn.X); id != "" {
						name = id + "." + fn.Sel.Name
					}
				}
				if name != "" && !seen[name] {
					seen[name] = true
					calls = append(calls, name)
				}
			}
		}
		stack = append(stack, n)
		return true
	})
	return
}

func emitC02PanicSites(repo string) (string, any, error) {
	w, err := c01Load(repo)
	if err != nil {
		return "", nil, err
	}
	var all []panicSite
	var blockers, wiredBlockers, unwiredBlockers []string
	mods, _ := filepath.Glob(filepath.Join(repo, "x", "*", "abci.go"))
	sort.Strings(mods)
	for _, p := range mods {
		mod := filepath.Base(filepath.Dir(p))
		root := w.Pkgs["x/"+mod]
		kp := w.Pkgs["x/"+mod+"/keeper"]
		if root == nil {
			continue
		}
		for _, phase := range []string{"BeginBlocker", "EndBlocker"} {
			fd, ok := root.Funcs[phase]
			if !ok {
				continue
			}
			blockers = append(blockers, mod+"."+phase)
			// is the blocker called by the module's ABCI method? (x/issuance defines one that is never called)
			wired := false
			if m, ok := root.Methods["AppModule"][strings.TrimSuffix(phase, "er")]; ok && m.decl.Body != nil {
				ast.Inspect(m.decl.Body, func(n ast.Node) bool {
					if call, ok := n.(*ast.CallExpr); ok && identName(call.Fun) == phase {
						wired = true
					}
					return true
				})
			}
			if wired {
				wiredBlockers = append(wiredBlockers, mod+"."+phase)
			} else {
				unwiredBlockers = append(unwiredBlockers, mod+"."+phase)
			}
			type item struct {
				fd    *funcDecl
				name  string
				depth int
			}
			queue := []item{{fd, phase, 0}}
			visited := map[string]bool{phase: true}
			for len(queue) > 0 {
				it := queue[0]
				queue = queue[1:]
				sites, calls := panicsIn(it.fd.file, it.fd.decl.Body)
				for _, s := range sites {
					s.Module, s.Phase, s.Fn, s.Depth, s.File, s.Wired = "x/"+mod, phase, it.name, it.depth, it.fd.file.Path, wired
					all = append(all, s)
				}
				if it.depth >= c02Depth {
					continue
				}
				for _, cn := range calls {
					var next *funcDecl
					name := ""
					if k := strings.Index(cn, "."); k >= 0 {
						// receiver call: resolve as a Keeper method of this module when the receiver is the keeper
						m := cn[k+1:]
						if kp != nil {
							if d, ok := kp.Methods["Keeper"][m]; ok {
								next, name = d, "Keeper."+m
							}
						}
					} else {
						if d, ok := root.Funcs[cn]; ok && it.depth == 0 {
							next, name = d, cn
						} else if kp != nil {
							if d, ok := kp.Funcs[cn]; ok && it.depth > 0 {
								next, name = d, cn
							}
						}
					}
					if next != nil && next.decl.Body != nil && !visited[name] {
						visited[name] = true
						queue = append(queue, item{next, name, it.depth + 1})
					}
				}
			}
		}
	}
	if len(blockers) < 8 {
		return "", nil, fmt.Errorf("only %d begin/end blockers found", len(blockers))
	}
	// index duplicates
	cnt := map[string]int{}
	for i := range all {
		k := all[i].Module + "|" + all[i].Fn + "|" + all[i].Callee
		all[i].Idx = cnt[k]
		cnt[k]++
	}
	var sb strings.Builder
	sb.WriteString("namespace KV.Gen.C02\n\n")
	sb.WriteString("/-- one `panic(` reachable from a begin/end blocker. `kind` = errEscalation (`if err != nil { panic }`, `callee` = the call whose error is escalated) or explicit (`callee` = the panic argument). -/\n")
	sb.WriteString("structure PanicSite where\n  module : String\n  phase : String\n  fn : String\n  depth : Nat\n  kind : String\n  callee : String\n  idx : Nat\n  line : Nat\n  wired : Bool\nderiving DecidableEq, Repr\n\n")
	fmt.Fprintf(&sb, "def blockers : List String := %s\n\n", leanStrList(blockers))
	fmt.Fprintf(&sb, "/-- blockers that the module's AppModule.BeginBlock / EndBlock really calls -/\ndef wiredBlockers : List String := %s\n\n", leanStrList(wiredBlockers))
	fmt.Fprintf(&sb, "/-- blockers defined in abci.go but never called by the module (dead code) -/\ndef unwiredBlockers : List String := %s\n\n", leanStrList(unwiredBlockers))
	fmt.Fprintf(&sb, "def callDepth : Nat := %d\n\n", c02Depth)
	sb.WriteString("def panicSites : List PanicSite := [\n")
	for i, s := range all {
		sep := ","
		if i == len(all)-1 {
			sep = ""
		}
		fmt.Fprintf(&sb, "  ⟨%s, %s, %s, %d, %s, %s, %d, %d, %s⟩%s\n", leanStr(s.Module), leanStr(s.Phase), leanStr(s.Fn), s.Depth, leanStr(s.Kind), leanStr(s.Callee), s.Idx, s.Line, leanBool(s.Wired), sep)
	}
	sb.WriteString("]\n\nend KV.Gen.C02\n")
	return sb.String(), map[string]any{"blockers": blockers, "unwired": unwiredBlockers, "panicSites": all}, nil
}

// ---------------------------------------------------------------- wiring

func orderArgs(f *File, fn *ast.FuncDecl, method string) ([]string, error) {
	var out []string
	ast.Inspect(fn.Body, func(n ast.Node) bool {
		call, ok := n.(*ast.CallExpr)
		if !ok {
			return true
		}
		if sel, ok := call.Fun.(*ast.SelectorExpr); ok && sel.Sel.Name == method {
			for _, a := range call.Args {
				out = append(out, f.text(a))
			}
			return false
		}
		return true
	})
	if len(out) == 0 {
		return nil, fmt.Errorf("app.go: no %s call", method)
	}
	return out, nil
}

func emitC02Wiring(repo string) (string, any, error) {
	w, err := c01Load(repo)
	if err != nil {
		return "", nil, err
	}
	appf, err := parseFile(repo, "app/app.go")
	if err != nil {
		return "", nil, err
	}
	newApp, err := appf.funcDecl("NewApp")
	if err != nil {
		return "", nil, err
	}
	bb, err := orderArgs(appf, newApp, "SetOrderBeginBlockers")
	if err != nil {
		return "", nil, err
	}
	eb, err := orderArgs(appf, newApp, "SetOrderEndBlockers")
	if err != nil {
		return "", nil, err
	}
	ig, err := orderArgs(appf, newApp, "SetOrderInitGenesis")
	if err != nil {
		return "", nil, err
	}
	// app.mm.RegisterInvariants(&app.crisisKeeper) must be present
	crisis := strings.Contains(string(appf.Src), "app.mm.RegisterInvariants(&app.crisisKeeper)")

	type route struct{ Module, Route, Ctor string }
	var registered, defined []route
	entries, _ := os.ReadDir(filepath.Join(repo, "x"))
	for _, e := range entries {
		if !e.IsDir() {
			continue
		}
		mod := e.Name()
		root := w.Pkgs["x/"+mod]
		kp := w.Pkgs["x/"+mod+"/keeper"]
		if root == nil || kp == nil {
			continue
		}
		// routes the keeper package defines
		var routes []route
		if fd, ok := kp.Funcs["RegisterInvariants"]; ok {
			ast.Inspect(fd.decl.Body, func(n ast.Node) bool {
				call, ok := n.(*ast.CallExpr)
				if !ok {
					return true
				}
				if sel, ok := call.Fun.(*ast.SelectorExpr); ok && sel.Sel.Name == "RegisterRoute" && len(call.Args) == 3 {
					name, err := strLit(call.Args[1])
					if err != nil {
						name = fd.file.text(call.Args[1])
					}
					routes = append(routes, route{mod, name, callText(fd.file, call.Args[2])})
				}
				return true
			})
		}
		// does AppModule.RegisterInvariants call keeper.RegisterInvariants?
		calls := false
		if m, ok := root.Methods["AppModule"]["RegisterInvariants"]; ok {
			ast.Inspect(m.decl.Body, func(n ast.Node) bool {
				if call, ok := n.(*ast.CallExpr); ok && strings.HasSuffix(m.file.text(call.Fun), "RegisterInvariants") {
					calls = true
				}
				return true
			})
		}
		for _, r := range routes {
			defined = append(defined, r)
			if calls {
				registered = append(registered, r)
			}
		}
	}
	if len(registered) < 5 {
		return "", nil, fmt.Errorf("only %d registered invariant routes found", len(registered))
	}
	var sb strings.Builder
	sb.WriteString("namespace KV.Gen.C02\n\n")
	fmt.Fprintf(&sb, "/-- `app.mm.RegisterInvariants(&app.crisisKeeper)` is present in app/app.go -/\ndef crisisRegistration : Bool := %s\n\n", leanBool(crisis))
	wr := func(name, doc string, rs []route) {
		fmt.Fprintf(&sb, "/-- %s: (module, route, constructor) -/\ndef %s : List (String × String × String) := [\n", doc, name)
		for i, r := range rs {
			sep := ","
			if i == len(rs)-1 {
				sep = ""
			}
			fmt.Fprintf(&sb, "  (%s, %s, %s)%s\n", leanStr(r.Module), leanStr(r.Route), leanStr(r.Ctor), sep)
		}
		sb.WriteString("]\n\n")
	}
	wr("invariantRoutes", "invariant routes of Kava modules actually registered with the crisis keeper", registered)
	var unreg []route
	for _, d := range defined {
		found := false
		for _, r := range registered {
			if r == d {
				found = true
			}
		}
		if !found {
			unreg = append(unreg, d)
		}
	}
	wr("unregisteredRoutes", "routes a keeper package defines but the module does not register", unreg)
	fmt.Fprintf(&sb, "def beginBlockerOrder : List String := %s\n\n", leanStrList(bb))
	fmt.Fprintf(&sb, "def endBlockerOrder : List String := %s\n\n", leanStrList(eb))
	fmt.Fprintf(&sb, "def initGenesisOrder : List String := %s\n\n", leanStrList(ig))
	sb.WriteString("end KV.Gen.C02\n")
	return sb.String(), map[string]any{"registered": registered, "unregistered": unreg, "beginBlockers": bb, "endBlockers": eb, "initGenesis": ig}, nil
}
