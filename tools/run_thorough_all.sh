#!/bin/sh
# run_thorough_all.sh — (background sweeps) build everything, then run every check's thorough tier once
cd "$(dirname "$0")/.."
./setup.sh > /dev/null 2>&1
for f in checks/C*.json; do
  id=$(basename "$f" .json)
  start=$(date +%s)
  out=$(./check "$id" --tier thorough 2>&1); rc=$?
  echo "$id rc=$rc $(($(date +%s)-start))s :: $(echo "$out" | grep -E 'VIOLATION|tier=' | tr '\n' ' ' | cut -c1-400)"
done
