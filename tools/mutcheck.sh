#!/bin/sh
# mutcheck.sh <patch.diff> <Cxx> [tier]  — run a check against an isolated mutated copy of /repo.
# Used while other work is going on in /repo; the authoritative run is `git -C /repo apply` + ./check.
set -e
PATCH=$(readlink -f "$1"); PID=$2; TIER=${3:-quick}
W=$(mktemp -d /tmp/mutcheck.XXXXXX)
trap 'git -C /repo worktree remove --force "$W/repo" 2>/dev/null; rm -rf "$W"' EXIT
git -C /repo worktree add -q --detach "$W/repo" HEAD
# untracked hook files (export_verif.go) of the live tree
(cd /repo && git ls-files --others --exclude-standard | grep '_verif.go$' | while read f; do mkdir -p "$W/repo/$(dirname $f)"; cp "$f" "$W/repo/$f"; done)
git -C "$W/repo" apply "$PATCH"
rsync -a --exclude work --exclude replays --exclude .git /verif/ "$W/verif/" || true
cd "$W/verif"
VERIF_REPO="$W/repo" ./check "$PID" --tier "$TIER" || echo "exit=$?"
ls replays 2>/dev/null | head -3
