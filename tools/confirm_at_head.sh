#!/bin/sh
# confirm_at_head.sh <_out dir>  — confirm a seeded change against /repo's CURRENT HEAD in a fresh scratch worktree
export GOFLAGS=-mod=mod GOPROXY=off GOSUMDB=off GOTOOLCHAIN=local
O=$(readlink -f "$1")
W=$(mktemp -d /tmp/confirm.XXXXXX)
trap 'git -C /repo worktree remove --force "$W/r" 2>/dev/null; rm -rf "$W"' EXIT
git -C /repo worktree add -q --detach "$W/r" HEAD || exit 2
cd "$W/r"
DEMO=$(python3 -c "import json;print(json.load(open('$O/meta.json'))['demo_path'])")
CMD=$(python3 -c "import json;print(json.load(open('$O/meta.json'))['demo_cmd'])")
PKGS=$(grep '^+++ b/' "$O/patch.diff" | sed 's|+++ b/||' | xargs -n1 dirname | sort -u | sed 's|^|./|' | tr '\n' ' ')
cp "$(ls $O/*_test.go | head -1)" "$DEMO"
echo "== demo without patch: $(eval "$CMD" 2>&1 | tail -1)"
git apply "$O/patch.diff" || { echo "PATCH DOES NOT APPLY AT HEAD"; exit 1; }
echo "== demo with patch: $(eval "$CMD" 2>&1 | tail -1)"
rm -f "$DEMO"
echo "== existing tests ($PKGS) with patch: $(go test -vet=off -count=1 $PKGS 2>&1 | grep -v 'no test files' | tr '\n' ' ' | cut -c1-300)"
