#!/usr/bin/env python3
"""Regenerates MANIFEST.json's checks / not_applicable from checks/*.json (keeps the rest)."""
import json, os, glob
V = os.path.dirname(os.path.dirname(os.path.abspath(__file__)))
man = json.load(open(os.path.join(V, "MANIFEST.json")))
props = [json.loads(l)["id"] for l in open(os.path.join(V, "properties.jsonl"))]
checks, na = [], []
ready = set(open(os.path.join(V, "checks", "ready.txt")).read().split())
for pid in props:
    p = os.path.join(V, "checks", pid + ".json")
    if os.path.exists(p) and pid in ready:
        c = json.load(open(p))
        if c.get("not_applicable"):
            na.append({"property_id": pid, "reason": c["not_applicable"]}); continue
        checks.append({
            "property_id": pid,
            "quick_cmd": f"./check {pid} --tier quick",
            "thorough_cmd": f"./check {pid} --tier thorough",
            "evidence_file": f"evidence/{pid}.json",
            "replay_cmd_template": f"./check {pid} --replay {{path}}",
            "engine": "lean",
            "level_claimed": {"category": "proof", "text": c.get("level_text", ""), "design_ref": c.get("design_ref", f"DESIGN.md §5 {pid}")},
            "level_note": c.get("level_note", ""),
            "technique": c.get("technique", "Lean 4 theorems about an executable model + differential correspondence check against the real keepers"),
        })
    else:
        na.append({"property_id": pid, "reason": "not yet built in this round: no check is claimed (see DESIGN.md §5 for the planned theorems)"})
man["checks"], man["not_applicable"] = checks, na
hooks = os.path.join(V, "hooks_commits.txt")
if os.path.exists(hooks):
    man["hooks"]["source_commits"] = [l.split()[0] for l in open(hooks) if l.strip()]
json.dump(man, open(os.path.join(V, "MANIFEST.json"), "w"), indent=1)
print(len(checks), "checks,", len(na), "not applicable")
