#!/usr/bin/env python3
"""prints the prompt for an independent mutation sub-agent: mutprompt.py <Cxx> <worktree> [hint]"""
import json, sys
pid, wt = sys.argv[1], sys.argv[2]
hint = sys.argv[3] if len(sys.argv) > 3 else ""
p = [json.loads(l) for l in open('/verif/properties.jsonl') if json.loads(l)['id'] == pid][0]
print(f"""You are testing a verification effort by seeding a realistic defect. You work ONLY inside the git worktree {wt} (a checkout of the Kava blockchain, Go, Cosmos-SDK app). Do not read or write anything under /verif or /repo; do not use the network (there is none).

The property (of the Kava code base) that your change must BREAK:

  {p['id']} — {p['title']}
  Statement: {p['statement']}
  Quantified over: {p['quantifier']['text']}
  Code it is anchored in: {', '.join(p['anchors']['files'])}

Task: make a small source change (a few lines, in non-test .go files under the worktree) that a careless but plausible refactoring, optimisation or bug-fix could introduce, such that
  1. the repository still compiles and the EXISTING tests of every package you touched (and of the packages that directly use the changed code) still pass, unedited; and
  2. the property above no longer holds — but only under something specific: a particular multi-step sequence of operations, an unusual or boundary input, a particular block-time or ordering, or two cooperating sites that each look fine alone. Ordinary use (and the existing tests) must NOT expose it at once.{(' Angle to prefer: ' + hint) if hint else ''}
Then write a demonstration: a NEW Go test file (placed in the appropriate package directory of the worktree, name it zz_seeded_demo_test.go) that FAILS with your change and PASSES without it (verify both: save your diff with `git diff > /tmp/yourpatch.diff` and use `git apply -R` / `git apply` to switch; NEVER use `git stash` — the stash is shared with other worktrees of this repository). Keep the demonstration small and deterministic.

Environment: every shell call needs `export GOFLAGS=-mod=mod GOPROXY=off GOSUMDB=off GOTOOLCHAIN=local`; run tests like `cd {wt} && go test -vet=off -count=1 ./x/<module>/...`. Builds are cached; a package test run takes 10–120 s. Do not run the whole repository's test suite; run the touched packages and their direct users.

Deliver, in the directory {wt}/_out/ (create it):
  - patch.diff : `git diff` of the source change ONLY (not the demo test), applying cleanly with `git apply` at the worktree's HEAD;
  - the demonstration test file copied there as well, plus a line in meta.json saying at which path inside the repository it must be placed;
  - meta.json : {{"property": "{p['id']}", "summary": "...what the change does...", "needs": "...what specific sequence/input/timing is needed to manifest...", "demo_path": "x/.../zz_seeded_demo_test.go", "demo_cmd": "go test ...", "tests_run": ["...package test commands you ran that still pass..."]}}
Finally restore the worktree to a clean state except for _out/ (git checkout -- . ; remove the demo test from the package dir) and reply with a 5-line summary. If your first idea is exposed by the existing tests, try another; do not edit existing tests.""")
