#!/bin/sh
# confirm_mut.sh <worktree>  — orchestrator's own confirmation of a seeded change:
#   demo passes without the patch, fails with it, and the touched packages' existing tests pass with it.
export GOFLAGS=-mod=mod GOPROXY=off GOSUMDB=off GOTOOLCHAIN=local
W=$1; cd "$W" || exit 2
git checkout -q -- . 
DEMO=$(python3 -c "import json;print(json.load(open('_out/meta.json'))['demo_path'])")
CMD=$(python3 -c "import json;print(json.load(open('_out/meta.json'))['demo_cmd'])")
PKGS=$(grep '^+++ b/' _out/patch.diff | sed 's|+++ b/||' | xargs -n1 dirname | sort -u | sed 's|^|./|' | tr '\n' ' ')
DEMOFILE=$(ls _out/*_test.go | head -1)
cp "$DEMOFILE" "$DEMO"
echo "== demo without patch"; (eval "$CMD" 2>&1 | tail -2)
git apply _out/patch.diff || { echo "PATCH DOES NOT APPLY"; rm -f "$DEMO"; exit 1; }
echo "== demo with patch"; (eval "$CMD" 2>&1 | tail -3)
rm -f "$DEMO"
echo "== existing tests of touched packages with patch: $PKGS"; go test -vet=off -count=1 $PKGS 2>&1 | tail -6
git checkout -q -- .
