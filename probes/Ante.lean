namespace AN
inductive Msg where
  | plain : String → Msg
  | grant : String → Msg
  | exec  : List Msg → Msg

def disabled (bl : List String) (u : String) : Bool := bl.contains u

mutual
/-- checkForDisabledMsg: returns true when the message list passes -/
def check (bl : List String) : List Msg → Bool → Bool
  | [], _ => true
  | m :: ms, onlyAuthz => checkOne bl m onlyAuthz && check bl ms onlyAuthz
def checkOne (bl : List String) : Msg → Bool → Bool
  | .plain u, onlyAuthz => onlyAuthz || !disabled bl u
  | .grant t, _ => !disabled bl t
  | .exec ms, _ => check bl ms false
end

mutual
/-- a blocked type is reachable: plain blocked inside an exec, or a grant of a blocked type anywhere -/
def bad (bl : List String) : List Msg → Bool → Bool
  | [], _ => false
  | m :: ms, inExec => badOne bl m inExec || bad bl ms inExec
def badOne (bl : List String) : Msg → Bool → Bool
  | .plain u, inExec => inExec && disabled bl u
  | .grant t, _ => disabled bl t
  | .exec ms, _ => bad bl ms true
end

mutual
theorem check_iff (bl : List String) : ∀ (ms : List Msg) (inExec : Bool),
    check bl ms (!inExec) = !bad bl ms inExec
  | [], _ => by simp [check, bad]
  | m :: ms, inExec => by
      simp only [check, bad, checkOne_iff bl m inExec, check_iff bl ms inExec, Bool.not_or]
theorem checkOne_iff (bl : List String) : ∀ (m : Msg) (inExec : Bool),
    checkOne bl m (!inExec) = !badOne bl m inExec
  | .plain u, inExec => by cases inExec <;> simp [checkOne, badOne]
  | .grant t, _ => by simp [checkOne, badOne]
  | .exec ms, _ => by
      have := check_iff bl ms true
      simp only [Bool.not_true] at this
      simp [checkOne, badOne, this]
end
#print axioms check_iff
end AN
