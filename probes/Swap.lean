namespace SW
/-- exact-input swap: x = input after fee, out = ⌊B*x/(A+x)⌋ -/
theorem product_nondecreasing (A B x : Nat) (hA : 0 < A) :
    A * B ≤ (A + x) * (B - B * x / (A + x)) := by
  have hpos : 0 < A + x := by omega
  have h1 : B * x / (A + x) * (A + x) ≤ B * x := Nat.div_mul_le_self _ _
  have hle : B * x / (A + x) ≤ B := by
    apply Nat.div_le_of_le_mul
    calc B * x ≤ B * (A + x) := Nat.mul_le_mul_left B (by omega)
      _ = (A + x) * B := Nat.mul_comm _ _
  rw [Nat.mul_sub, Nat.add_mul]
  have h2 : (A + x) * (B * x / (A + x)) ≤ B * x := by rw [Nat.mul_comm]; exact h1
  have h3 : x * B = B * x := Nat.mul_comm _ _
  omega

/-- withdraw: reserves per share do not decrease: A*(S-s) ≤ (A - ⌊A*s/S⌋) * S -/
theorem withdraw_share_value (A S s : Nat) (hs : s ≤ S) :
    A * (S - s) ≤ (A - A * s / S) * S := by
  have h1 : A * s / S * S ≤ A * s := Nat.div_mul_le_self _ _
  rw [Nat.mul_sub, Nat.sub_mul]
  omega

/-- deposit: shares = min(⌊a*S/A⌋, ⌊b*S/B⌋) ⇒ A*(S+sh) ≤ (A+a)*S -/
theorem deposit_share_value (A S a sh : Nat) (h : sh ≤ a * S / A) (hA : 0 < A) :
    A * (S + sh) ≤ (A + a) * S := by
  have h1 : a * S / A * A ≤ a * S := Nat.div_mul_le_self _ _
  have h2 : sh * A ≤ a * S / A * A := Nat.mul_le_mul_right A h
  rw [Nat.mul_add, Nat.add_mul]
  have : A * sh = sh * A := Nat.mul_comm _ _
  omega
#print axioms product_nondecreasing
end SW
