namespace PB
abbrev Addr := Nat
def C : Int := 1000000000000

def sumOver (l : List Addr) (f : Addr → Int) : Int := (l.map f).foldr (· + ·) 0

def upd (f : Addr → Int) (a : Addr) (v : Int) : Addr → Int := fun x => if x = a then v else f x

theorem sumOver_upd_notin (l : List Addr) (f : Addr → Int) (a : Addr) (v : Int) (h : a ∉ l) :
    sumOver l (upd f a v) = sumOver l f := by
  induction l with
  | nil => rfl
  | cons x xs ih =>
    simp only [List.mem_cons, not_or] at h
    have hx : x ≠ a := fun e => h.1 e.symm
    have ih' := ih h.2
    unfold sumOver at ih' ⊢
    simp only [List.map_cons, List.foldr_cons, ih']
    simp only [upd, hx, ite_false]

theorem sumOver_upd (l : List Addr) (f : Addr → Int) (a : Addr) (v : Int)
    (hn : l.Nodup) (h : a ∈ l) :
    sumOver l (upd f a v) = sumOver l f - f a + v := by
  induction l with
  | nil => cases h
  | cons x xs ih =>
    have hnd := List.nodup_cons.mp hn
    by_cases hx : x = a
    · subst hx
      have := sumOver_upd_notin xs f x v hnd.1
      simp only [sumOver, List.map_cons, List.foldr_cons] at *
      simp only [upd, ite_true]
      omega
    · have hm : a ∈ xs := by
        cases h with
        | head => exact absurd rfl hx
        | tail _ h' => exact h'
      have := ih hnd.2 hm
      simp only [sumOver, List.map_cons, List.foldr_cons] at *
      simp only [upd, hx, ite_false]
      omega

structure St where
  b : Addr → Int      -- ukava balances
  f : Addr → Int      -- fractional balances
  r : Int             -- remainder
  R : Addr            -- reserve address

def Inv (accts : List Addr) (s : St) : Prop :=
  (∀ a, 0 ≤ s.f a ∧ s.f a < C) ∧ 0 ≤ s.r ∧ s.r < C ∧ s.b s.R * C = sumOver accts s.f + s.r

/-- sendExtendedCoins as written (balance sufficiency abstracted: caller guarantees). -/
def sendExt (s : St) (from_ to : Addr) (amt : Int) : St :=
  let sf := s.f from_
  let rf := s.f to
  let i := amt / C
  let fr := amt % C
  let sNew := sf - fr
  let borrow := sNew < 0
  let sNew' := if borrow then sNew + C else sNew
  let rNew := rf + fr
  let carry := rNew ≥ C
  let rNew' := if carry then rNew - C else rNew
  let i' := if borrow ∧ carry then i + 1 else i
  -- bank: from -> to i'
  let b1 := upd (upd s.b from_ (s.b from_ - i')) to (upd s.b from_ (s.b from_ - i') to + i')
  -- case 2: borrow, no carry: from -> reserve 1
  let b2 := if borrow ∧ ¬carry then
      upd (upd b1 from_ (b1 from_ - 1)) s.R (upd b1 from_ (b1 from_ - 1) s.R + 1) else b1
  -- case 3: no borrow, carry: reserve -> to 1
  let b3 := if ¬borrow ∧ carry then
      upd (upd b2 s.R (b2 s.R - 1)) to (upd b2 s.R (b2 s.R - 1) to + 1) else b2
  { s with b := b3, f := upd (upd s.f from_ sNew') to rNew' }

theorem send_inv (accts : List Addr) (hn : accts.Nodup) (s : St) (from_ to : Addr) (amt : Int)
    (hne : from_ ≠ to) (hfR : from_ ≠ s.R) (htR : to ≠ s.R)
    (hf : from_ ∈ accts) (ht : to ∈ accts) (hamt : 0 ≤ amt) (h : Inv accts s) :
    Inv accts (sendExt s from_ to amt) := by
  obtain ⟨hfr, hr0, hr1, hres⟩ := h
  have hsf := hfr from_
  have hrf := hfr to
  have hm0 : 0 ≤ amt % C := Int.emod_nonneg amt (by decide)
  have hm1 : amt % C < C := Int.emod_lt_of_pos amt (by decide)
  have hRf : s.R ≠ from_ := hfR.symm
  have hRt : s.R ≠ to := htR.symm
  refine ⟨?_, hr0, hr1, ?_⟩
  · intro a
    simp only [sendExt, upd]
    have := hfr a
    split <;> (try split) <;> (try split) <;> omega
  · simp only [sendExt]
    rw [sumOver_upd accts _ to _ hn ht, sumOver_upd accts _ from_ _ hn hf]
    by_cases hb : s.f from_ - amt % C < 0 <;> by_cases hc : s.f to + amt % C ≥ C <;>
      simp only [upd, hne, hne.symm, hfR, htR, hRf, hRt, hb, hc, ite_true, ite_false,
        and_self, and_true, and_false, true_and, false_and, not_true_eq_false, not_false_eq_true] <;>
      unfold C at * <;> omega
end PB
