namespace KV
def P : Int := 1000000000000000000
def H : Int := 500000000000000000

def chopRoundNonneg (d : Int) : Int :=
  if d % P = 0 then d / P
  else if d % P < H then d / P
  else if d % P > H then d / P + 1
  else if (d / P) % 2 = 0 then d / P else d / P + 1

def chopRound (d : Int) : Int :=
  if d < 0 then - chopRoundNonneg (-d) else chopRoundNonneg d

theorem chopRoundNonneg_bound (d : Int) (hd : 0 ≤ d) :
    2 * (chopRoundNonneg d * P - d) ≤ P ∧ 2 * (d - chopRoundNonneg d * P) ≤ P := by
  unfold chopRoundNonneg P H
  split
  · omega
  · split
    · omega
    · split
      · omega
      · split <;> omega

theorem chopRoundNonneg_mono (a b : Int) (ha : 0 ≤ a) (hab : a ≤ b) :
    chopRoundNonneg a ≤ chopRoundNonneg b := by
  unfold chopRoundNonneg P H
  split <;> split <;> (try split) <;> (try split) <;> (try split) <;> (try split) <;> omega

theorem chopRound_mono (a b : Int) (hab : a ≤ b) : chopRound a ≤ chopRound b := by
  unfold chopRound
  split <;> split
  · have := chopRoundNonneg_mono (-b) (-a) (by omega) (by omega); omega
  · have h1 : 0 ≤ chopRoundNonneg (-a) := by
      have := chopRoundNonneg_mono 0 (-a) (by omega) (by omega)
      have h0 : chopRoundNonneg 0 = 0 := by decide
      omega
    have h2 : 0 ≤ chopRoundNonneg b := by
      have := chopRoundNonneg_mono 0 b (by omega) (by omega)
      have h0 : chopRoundNonneg 0 = 0 := by decide
      omega
    omega
  · omega
  · exact chopRoundNonneg_mono a b (by omega) hab

/-- Dec mul with 1 ≤ f never decreases a non-negative value -/
theorem mul_ge_of_one_le (a f : Int) (ha : 0 ≤ a) (hf : P ≤ f) : a ≤ chopRound (a * f) := by
  have h : a * P ≤ a * f := Int.mul_le_mul_of_nonneg_left hf ha
  have hm := chopRound_mono (a * P) (a * f) h
  have he : chopRound (a * P) = a := by
    unfold chopRound chopRoundNonneg
    have hp : (0:Int) ≤ a * P := Int.mul_nonneg ha (by decide)
    have : ¬ (a * P < 0) := by omega
    simp only [this, ite_false]
    have h1 : a * P % P = 0 := Int.mul_emod_left a P
    simp only [h1, ite_true]
    exact Int.mul_ediv_cancel a (by decide)
  omega

#eval chopRound (3 * P + H)
#eval chopRound (2 * P + H)
#eval chopRound (-(2 * P + H + 1))
#print axioms mul_ge_of_one_le
end KV
