namespace VS
abbrev Period := Int × Int   -- (length, amount)

/-- SDK periodic vesting: coins vested at time t, scanning from `cur` -/
def vestedFrom (cur : Int) : List Period → Int → Int
  | [], _ => 0
  | (len, a) :: ps, t => if t - cur < len then 0 else a + vestedFrom (cur + len) ps t

def total : List Period → Int
  | [] => 0
  | (len, _) :: ps => len + total ps

/-- the insertion loop of addCoinsToVestingSchedule (else-branch), cnt = lengthCounter so far -/
def ins (cnt target amt : Int) : List Period → List Period
  | [] => []
  | (len, a) :: ps =>
    if cnt + len < target then (len, a) :: ins (cnt + len) target amt ps
    else if cnt + len = target then (len, a + amt) :: ps
    else (target - cnt, amt) :: (len - (target - cnt), a) :: ps

def allPos : List Period → Prop
  | [] => True
  | (len, _) :: ps => 0 < len ∧ allPos ps

theorem ins_vested (start amt target : Int) :
    ∀ (ps : List Period) (cnt : Int), allPos ps → cnt < target → target ≤ cnt + total ps →
    ∀ t, vestedFrom (start + cnt) (ins cnt target amt ps) t =
         vestedFrom (start + cnt) ps t + (if t - start < target then 0 else amt)
  | [], cnt, _, h1, h2 => by simp [total] at h2; omega
  | (len, a) :: ps, cnt, hp, h1, h2 => by
    intro t
    obtain ⟨hl, hps⟩ := hp
    simp only [total] at h2
    simp only [ins]
    split
    · rename_i hlt
      have ih := ins_vested start amt target ps (cnt + len) hps hlt (by omega) t
      simp only [vestedFrom]
      have e : start + (cnt + len) = start + cnt + len := by omega
      rw [e] at ih
      split
      · split <;> omega
      · rw [ih]; omega
    · split
      · rename_i _ heq
        simp only [vestedFrom]
        split <;> split <;> omega
      · rename_i hge hne
        simp only [vestedFrom]
        have e : start + cnt + (target - cnt) = start + target := by omega
        rw [e]
        have e2 : start + target + (len - (target - cnt)) = start + cnt + len := by omega
        rw [e2]
        split <;> split <;> (try split) <;> (try split) <;> omega

theorem ins_total (amt target : Int) :
    ∀ (ps : List Period) (cnt : Int), total (ins cnt target amt ps) = total ps
  | [], _ => rfl
  | (len, a) :: ps, cnt => by
    simp only [ins]
    split
    · simp only [total, ins_total amt target ps (cnt + len)]
    · split <;> simp only [total] <;> omega
#print axioms ins_vested
end VS
