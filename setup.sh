#!/bin/sh
# Build the framework from files on disk only (offline). Builds what checks/*.json reference;
# every check rebuilds what it needs anyway, so a failure here is reported but not fatal.
cd "$(dirname "$0")"
export GOFLAGS=-mod=mod GOPROXY=off GOSUMDB=off GOTOOLCHAIN=local
mkdir -p work replays evidence harness/bin tools/extract/bin
(cd tools/extract && go build -o bin/extract . && ./bin/extract /repo ../../lean/KavaVerif/Generated >/dev/null)
cp /repo/go.sum harness/go.sum
python3 - <<'PY'
import json, glob, subprocess, os
mods, exes, cmds = set(), set(), set()
for f in sorted(glob.glob('checks/*.json')):
    c = json.load(open(f))
    if c.get('not_applicable'): continue
    mods.add(c['props_module']); exes.add(c.get('driver', 'kv_' + c['id'].lower()))
    cmds.update(c.get('harness', []))
r = subprocess.run(['lake', 'build'] + sorted(mods) + sorted(exes), cwd='lean')
print('lean build rc', r.returncode)
for h in sorted(cmds):
    r = subprocess.run(['go', 'build', '-tags', 'verif', '-o', 'bin/' + h, './cmd/' + h], cwd='harness')
    print('harness', h, 'rc', r.returncode)
PY
echo "setup done"
