#!/bin/sh
# Build the framework from files on disk only (offline).
set -e
cd "$(dirname "$0")"
export GOFLAGS=-mod=mod GOPROXY=off GOSUMDB=off GOTOOLCHAIN=local
mkdir -p work replays evidence harness/bin tools/extract/bin
(cd tools/extract && go build -o bin/extract . && ./bin/extract /repo ../../lean/KavaVerif/Generated >/dev/null || true)
(cd lean && lake build)
cp /repo/go.sum harness/go.sum
(cd harness && for d in cmd/*/; do n=$(basename "$d"); go build -tags verif -o "bin/$n" "./cmd/$n" || exit 1; done)
echo "setup ok"
