#!/bin/sh
# Build the framework from files on disk only (offline).
set -e
cd "$(dirname "$0")"
export GOFLAGS=-mod=mod GOPROXY=off GOSUMDB=off GOTOOLCHAIN=local
mkdir -p work replays evidence harness/bin tools/extract/bin
(cd tools/extract && go build -o bin/extract . && ./bin/extract /repo ../../lean/KavaVerif/Generated >/dev/null || true)
(cd lean && lake build && for i in 01 02 03 04 05 06 07 08 09 10 11 12 13 14 15 16 17 18 19 20; do lake build kv_c$i; done)
cp /repo/go.sum harness/go.sum
(cd harness && for d in cmd/*/; do n=$(basename "$d"); go build -tags verif -o "bin/$n" "./cmd/$n" || exit 1; done)
echo "setup ok"
